#![no_main]
//! libFuzzer target `verify` (C16, C02, C03): bytes -> structured batch (see bpv::fuzzdec::verify_target); oracle inside
//! the target: no panic, verdict == independent reference verdict, batch verdict == AND of singleton verdicts.
use libfuzzer_sys::fuzz_target;

fuzz_target!(|data: &[u8]| {
    if let Err(m) = bpv::fuzzdec::verify_target(data) {
        panic!("ORACLE verify: {}", m);
    }
});
