#![no_main]
//! libFuzzer target `decode` (C15, C16): bytes -> from_bytes / serde / degree helper, with the independent acceptance
//! predicate, byte-exact re-encoding and serde equivalence checked inside the target.
use libfuzzer_sys::fuzz_target;

fuzz_target!(|data: &[u8]| {
    if let Err(m) = bpv::fuzzdec::decode_target(data) {
        panic!("ORACLE decode: {}", m);
    }
});
