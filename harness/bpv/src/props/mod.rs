use crate::runner::PropertyDef;

pub mod c01;
pub mod c02;
pub mod c03;
pub mod c05;

pub fn all() -> Vec<(&'static str, fn() -> PropertyDef)> {
    vec![
        ("C01", c01::def as fn() -> PropertyDef),
        ("C02", c02::def as fn() -> PropertyDef),
        ("C03", c03::def as fn() -> PropertyDef),
        ("C05", c05::def as fn() -> PropertyDef),
    ]
}
