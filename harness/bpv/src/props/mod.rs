use crate::runner::PropertyDef;

pub mod c01;
pub mod c02;
pub mod c03;
pub mod c04;
pub mod c05;
pub mod c06;
pub mod c07;
pub mod c08;
pub mod c09;
pub mod c10;
pub mod c11;
pub mod c12;
pub mod c13;
pub mod c14;
pub mod c15;
pub mod c16;
pub mod c17;
pub mod c18;
pub mod c19;
pub mod c20;

pub fn all() -> Vec<(&'static str, fn() -> PropertyDef)> {
    vec![
        ("C01", c01::def as fn() -> PropertyDef),
        ("C02", c02::def as fn() -> PropertyDef),
        ("C03", c03::def as fn() -> PropertyDef),
        ("C04", c04::def as fn() -> PropertyDef),
        ("C05", c05::def as fn() -> PropertyDef),
        ("C06", c06::def as fn() -> PropertyDef),
        ("C07", c07::def as fn() -> PropertyDef),
        ("C08", c08::def as fn() -> PropertyDef),
        ("C09", c09::def as fn() -> PropertyDef),
        ("C10", c10::def as fn() -> PropertyDef),
        ("C11", c11::def as fn() -> PropertyDef),
        ("C12", c12::def as fn() -> PropertyDef),
        ("C13", c13::def as fn() -> PropertyDef),
        ("C14", c14::def as fn() -> PropertyDef),
        ("C15", c15::def as fn() -> PropertyDef),
        ("C16", c16::def as fn() -> PropertyDef),
        ("C17", c17::def as fn() -> PropertyDef),
        ("C18", c18::def as fn() -> PropertyDef),
        ("C19", c19::def as fn() -> PropertyDef),
        ("C20", c20::def as fn() -> PropertyDef),
    ]
}
