use crate::runner::PropertyDef;

pub mod c01;

pub fn all() -> Vec<(&'static str, fn() -> PropertyDef)> {
    vec![("C01", c01::def as fn() -> PropertyDef)]
}
