//! C12 Proof validity does not depend on generator capacity.
use proptest::prelude::*;
use rand_core::RngCore;
use serde::{Deserialize, Serialize};
use serde_json::json;
use tari_bulletproofs_plus::range_proof::VerifyAction;

use crate::{
    eng::{action_name, Engine, F, R},
    gen::{chacha, Cfg, Triple, TripleSpec, BITS},
    props::c03::{build_member, pool_member_valid, verify_members, Member, PoolMember},
    refimpl::Grp,
    runner::{guarded, setup, no_fixed, sub, CaseLog, PropertyDef, RunCtx, Sub, Tier},
};

#[derive(Clone, Debug, Serialize, Deserialize)]
pub struct CapSpec {
    pub bits_idx: u8,
    pub ext: usize,
    pub target: PoolMember,
    /// capacity of the prover = m << cp_log, of the verifier = m << cv_log
    pub cp_log: u8,
    pub cv_log: u8,
    pub others: Vec<PoolMember>,
    pub order: u64,
    pub mode: u8,
}

fn cap_strategy() -> impl Strategy<Value = CapSpec> {
    (
        0u8..7,
        1usize..=6,
        pool_member_valid(),
        0u8..=4,
        0u8..=4,
        prop::collection::vec(pool_member_valid(), 0..=5),
        any::<u64>(),
        0u8..3,
    )
        .prop_map(|(bits_idx, ext, target, cp_log, cv_log, others, order, mode)| CapSpec {
            bits_idx,
            ext,
            target,
            cp_log,
            cv_log,
            others,
            order,
            mode,
        })
}

pub fn oracle<E: Engine>(ctx: &RunCtx, spec: &CapSpec, log: &mut CaseLog) -> Result<(), String> {
    E::reset_case();
    let bits = BITS[spec.bits_idx as usize % BITS.len()];
    let max_size = match (E::IS_F, ctx.tier) {
        (true, Tier::Quick) => 1024,
        (true, Tier::Thorough) => 4096,
        (false, Tier::Quick) => 256,
        (false, Tier::Thorough) => 1024,
    };
    let mut m = 1usize << (spec.target.m_log % 4);
    while bits * m > max_size / 2 && m > 1 {
        m /= 2;
    }
    let bound = |c: usize| {
        let mut c = c;
        while bits * c > max_size && c > m {
            c /= 2;
        }
        c
    };
    let cp = bound(m << spec.cp_log);
    let cv = bound(m << spec.cv_log);
    let tspec = TripleSpec {
        cfg: Cfg { bits, m, cap: cp, ext: spec.ext },
        slots: spec.target.slots.clone(),
        ctx: spec.target.ctx.clone(),
        rng: spec.target.rng,
        seed: spec.target.seed,
        bulk: spec.target.bulk,
    };
    let t = Triple::<E>::build(&tspec)?;
    let proof = setup(guarded(|| t.prove()), "the prover refused or panicked on a valid witness (C01's subject)")?;
    // generator (i, j) is the same point whatever capacity was requested: the vectors for m, c_p and c_v agree on their
    // common prefix, party by party (that they are the DOCUMENTED points is C11's subject)
    let mut base: Option<(Vec<E::P>, Vec<E::P>)> = None;
    for c in [m, cp, cv] {
        let params = E::params(bits, c, spec.ext).map_err(|e| format!("params: {:?}", e))?;
        let gi: Vec<E::P> = params.gi_base_iter().cloned().collect();
        let hi: Vec<E::P> = params.hi_base_iter().cloned().collect();
        if gi.len() != bits * c || hi.len() != bits * c {
            return Err(format!("capacity {} yields {} / {} vector generators instead of {}", c, gi.len(), hi.len(), bits * c));
        }
        match &base {
            None => base = Some((gi, hi)),
            Some((g0, h0)) => {
                for t in 0..bits * m.min(c) {
                    if gi[t] != g0[t] || hi[t] != h0[t] {
                        return Err(format!(
                            "generator (party {}, index {}) under capacity {} differs from the same generator under capacity {}",
                            t / bits,
                            t % bits,
                            c,
                            m
                        ));
                    }
                }
            },
        }
    }
    // ... and the parameter object a statement CARRIES (public field `generators`) is still the full-capacity set: the same
    // vector generators, and usable for a larger aggregate that fits its capacity
    if cp > m {
        let carried = t.st.generators.clone();
        let gi: Vec<E::P> = carried.gi_base_iter().cloned().collect();
        let hi: Vec<E::P> = carried.hi_base_iter().cloned().collect();
        let fresh = E::params(bits, cp, spec.ext).map_err(|e| format!("params: {:?}", e))?;
        if gi != fresh.gi_base_iter().cloned().collect::<Vec<_>>() || hi != fresh.hi_base_iter().cloned().collect::<Vec<_>>() {
            return Err(format!(
                "the capacity-{} parameters carried by a statement of {} commitments no longer hand out the generators of capacity {}",
                cp, m, cp
            ));
        }
        use tari_bulletproofs_plus::{commitment_opening::CommitmentOpening, range_statement::RangeStatement, range_witness::RangeWitness};
        let mut g = chacha(spec.order ^ 0xca9);
        let vals: Vec<u64> = (0..cp).map(|j| (j as u64) & 1).collect();
        let rs: Vec<Vec<curve25519_dalek::scalar::Scalar>> = (0..cp).map(|_| (0..spec.ext).map(|_| crate::gen::rand_scalar(&mut g)).collect()).collect();
        let cs: Vec<E::P> = vals
            .iter()
            .zip(rs.iter())
            .map(|(v, r)| E::commit(carried.pc_gens(), &curve25519_dalek::scalar::Scalar::from(*v), r).map_err(crate::runner::skip_err))
            .collect::<Result<_, _>>()?;
        let st_full = RangeStatement::init(carried, cs, vec![None; cp], None).map_err(|e| format!("statement of {} commitments over carried parameters: {:?}", cp, e))?;
        let w_full = RangeWitness::init(vals.iter().zip(rs.iter()).map(|(v, r)| CommitmentOpening::new(*v, r.clone())).collect()).map_err(crate::runner::skip_err)?;
        // the control: the same aggregate over FRESH parameters of that capacity (if that does not work either, it is not a matter
        // of where the parameters came from)
        let fresh_st = RangeStatement::init(fresh, st_full.commitments.clone(), vec![None; cp], None).map_err(crate::runner::skip_err)?;
        let control = setup(
            guarded(|| E::prove(&mut t.transcript(), &fresh_st, &w_full, &mut crate::eng::RngSpec::ChaCha(spec.order).make())),
            "the prover refused or panicked on a valid full-capacity aggregate over fresh parameters (C01's subject)",
        )?;
        setup(
            guarded(|| E::verify(&mut [t.transcript()], &[fresh_st.clone()], &[control], VerifyAction::VerifyOnly)),
            "an honest full-capacity proof is rejected (C01's subject)",
        )?;
        let pf = guarded(|| E::prove(&mut t.transcript(), &st_full, &w_full, &mut crate::eng::RngSpec::ChaCha(spec.order).make()))?.map_err(|e| {
            format!(
                "prover refused {} commitments over the capacity-{} parameters taken out of a statement of {} commitments (it proves them over fresh parameters): {:?}",
                cp, cp, m, e
            )
        })?;
        guarded(|| E::verify(&mut [t.transcript()], &[fresh_st], &[pf], VerifyAction::VerifyOnly))?
            .map_err(|e| format!("proof over parameters taken out of a smaller statement refused under fresh parameters of the same capacity: {:?}", e))?;
        log.extra_evals += 2;
    }
    // verify under the verifier's capacity, alone
    let st_v = t
        .statement_with(t.seed, None, Some(cv))
        .map_err(|e| format!("statement under capacity {}: {:?}", cv, e))?;
    let mask = if t.seed.is_some() { Some(t.blindings[0].clone()) } else { None };
    let target = Member::<E> {
        st: st_v,
        proof,
        ctx: t.spec.ctx.clone(),
        valid: true,
        mask,
        m,
        cap: cv,
        altered: false,
    };
    let action = [VerifyAction::VerifyOnly, VerifyAction::RecoverAndVerify, VerifyAction::RecoverOnly][spec.mode as usize % 3];
    let check = |members: &[&Member<E>], what: &str| -> Result<(), String> {
        let masks = verify_members::<E>(members, action)?.map_err(|e| {
            format!(
                "{}: proof made under capacity {} for {} commitments refused under capacity {} in {}: {}",
                what,
                cp,
                m,
                cv,
                action_name(action),
                e
            )
        })?;
        for (i, (got, mem)) in masks.iter().zip(members.iter()).enumerate() {
            let want = if action == VerifyAction::VerifyOnly { None } else { mem.mask.clone() };
            if *got != want {
                return Err(format!("{}: mask of member {} wrong under mixed capacities", what, i));
            }
        }
        Ok(())
    };
    check(&[&target], "alone")?;
    // inside a batch whose members use different capacities, in generated order
    let others: Vec<Member<E>> = spec
        .others
        .iter()
        .map(|pm| build_member::<E>(bits, spec.ext, pm, bits.max(64)))
        .collect::<Result<_, _>>()?;
    let mut all: Vec<&Member<E>> = others.iter().chain(std::iter::once(&target)).collect();
    let mut prng = chacha(spec.order);
    for i in (1..all.len()).rev() {
        all.swap(i, (prng.next_u32() as usize) % (i + 1));
    }
    check(&all, "in batch")?;
    let caps: std::collections::BTreeSet<usize> = all.iter().map(|x| x.cap).collect();
    log.label(format!("engine={}", E::NAME));
    log.label(format!("cap:cp/m={} cv/m={}", cp / m, cv / m));
    log.label(format!("cap:batch={} distinct-capacities={}", all.len(), caps.len().min(4)));
    log.label(format!("cap:mode={}", action_name(action)));
    log.label(format!("bits={}", bits));
    log.label(format!("m={}", m));
    log.label(format!("ext={}", spec.ext));
    if cp != cv || caps.len() >= 2 {
        log.nontrivial(&(bits, m, cp, cv, caps.len(), spec.mode % 3, spec.ext));
    }
    log.sample(json!({"engine": E::NAME, "bits": bits, "m": m, "prover_capacity": cp, "verifier_capacity": cv, "ext": spec.ext,
        "batch_capacities": all.iter().map(|x| x.cap).collect::<Vec<_>>(), "mode": action_name(action)}));
    let _ = <E::P as Grp>::zero;
    Ok(())
}

fn cap_sub<E: Engine>(cases: (usize, usize)) -> Sub {
    sub(
        &format!("{}/capacity-pairs", E::NAME),
        no_fixed,
        cases,
        |_: &RunCtx, _: Option<&()>| cap_strategy(),
        oracle::<E>,
    )
}

pub fn def() -> PropertyDef {
    PropertyDef {
        id: "C12",
        level: "exploration",
        rule: "A case is an aggregate of m in {1,2,4,8} commitments proved under capacity c_p = m*2^a and verified under a statement rebuilt with \
               capacity c_v = m*2^b (a, b in 0..4, all bit lengths, degrees 1-6), alone and inside a batch of up to 5 other valid members with \
               their own capacities in generated order, in each verify mode. Oracle: accepted alone and in the batch, masks aligned; the \
               vector generators obtained for capacities m, c_p and c_v agree on their common prefix, party by party; the parameter object carried by a statement of m < c_p commitments still hands out the generators of capacity c_p and proves / verifies an aggregate of c_p commitments. Second generator: all-honest batches of 2-700 members from a pool with mixed capacities (beyond the chunk size). \
               Non-trivial = c_p != c_v or a batch with >= 2 distinct capacities; distinct by (bits, m, c_p, c_v, #capacities, mode, degree)."
            .into(),
        assumptions: vec!["size bound bits*capacity <= 1024 (quick F) / 256 (quick R)".into()],
        exhaustive: false,
        subs: vec![
            // beyond the chunk size: all-honest batches of up to 700 members drawn from a pool with mixed capacities
            crate::props::c01::long_sub::<F>((60, 1000)),
            cap_sub::<F>((10_000, 120_000)),
            cap_sub::<R>((800, 6000)),
        ],
    }
}
