//! C11 Generators are distinct, deterministic and derived as specified (enumerated grid).
use std::collections::HashSet;

use curve25519_dalek::{
    constants::{RISTRETTO_BASEPOINT_COMPRESSED, RISTRETTO_BASEPOINT_POINT},
    scalar::Scalar,
    traits::{Identity, VartimeMultiscalarMul, VartimePrecomputedMultiscalarMul},
    RistrettoPoint,
};
use proptest::prelude::*;
use rand_core::RngCore;
use serde::{Deserialize, Serialize};
use serde_json::json;
use tari_bulletproofs_plus::{range_parameters::RangeParameters, ristretto};

use crate::{
    eng::{ext_of, Engine, F},
    fp::FP,
    gen::{chacha, rand_scalar, BITS},
    refimpl::{vec_gens, Grp},
    runner::{guarded, sub, CaseLog, PropertyDef, RunCtx, Tier},
};

#[derive(Clone, Debug, Serialize, Deserialize, PartialEq, Eq, Hash)]
pub struct GenPoint {
    pub bits: usize,
    pub cap: usize,
    pub ext: usize,
    pub bulk: u64,
    /// construct on this many threads at once and compare (0 = current thread only)
    pub threads: u8,
}

fn grid(ctx: &RunCtx) -> Vec<GenPoint> {
    let max_cap = if ctx.tier == Tier::Quick { 32 } else { 128 };
    let mut v = vec![];
    let mut rot = 0u64;
    for &bits in &BITS {
        let mut cap = 1;
        // beyond (64, 32): small bit lengths go on until bits*capacity = 2048 (8192 thorough), so party indices >= 256 occur
        let max_total = if ctx.tier == Tier::Quick { 2048 } else { 8192 };
        while cap <= max_cap || bits * cap <= max_total {
            for ext in 1..=6 {
                // every degree for small parameter sets, round-robin for the large ones
                if bits * cap <= 64 || (rot as usize % 6) + 1 == ext {
                    v.push(GenPoint {
                        bits,
                        cap,
                        ext,
                        bulk: ctx.seed ^ (rot * 0x9e37),
                        threads: if bits * cap <= 128 && rot % 5 == 0 { 8 } else { 0 },
                    });
                }
            }
            rot += 1;
            cap *= 2;
        }
    }
    v
}

fn digest_r(p: &RangeParameters<RistrettoPoint>) -> Vec<[u8; 32]> {
    let mut v = vec![p.h_base_compressed().to_bytes()];
    v.extend(p.g_bases_compressed().iter().map(|c| c.to_bytes()));
    v.extend(p.gi_base_iter().map(|x| x.compress().to_bytes()));
    v.extend(p.hi_base_iter().map(|x| x.compress().to_bytes()));
    v
}

pub fn oracle_r(_ctx: &RunCtx, gp: &GenPoint, log: &mut CaseLog) -> Result<(), String> {
    let GenPoint { bits, cap, ext, .. } = *gp;
    let build = move || RangeParameters::<RistrettoPoint>::init(bits, cap, ristretto::create_pedersen_gens_with_extension_degree(ext_of(ext)));
    let p = guarded(build)?.map_err(|e| format!("RangeParameters::init({}, {}) refused: {:?}", bits, cap, e))?;
    // value generator and blinding generators
    let (rh, rg) = <RistrettoPoint as Grp>::pedersen(ext);
    if *p.h_base() != RISTRETTO_BASEPOINT_POINT || *p.h_base() != rh {
        return Err("value generator is not the Ristretto basepoint".into());
    }
    if p.h_base_compressed() != RISTRETTO_BASEPOINT_COMPRESSED || p.h_base_compressed() != p.h_base().compress() {
        return Err("compressed value generator is not the encoding of the value generator".into());
    }
    if p.g_bases().len() != ext || p.g_bases_compressed().len() != ext {
        return Err(format!("{} blinding generators for extension degree {}", p.g_bases().len(), ext));
    }
    for k in 0..ext {
        if p.g_bases()[k] != rg[k] {
            return Err(format!("blinding generator {} is not SHA3-512(\"RISTRETTO_MASKING_BASEPOINT_{}\") mapped to the group", k, k + 1));
        }
        if p.g_bases_compressed()[k] != p.g_bases()[k].compress() {
            return Err(format!("compressed blinding generator {} is not the encoding of the point", k));
        }
    }
    // vector generators: party-major reference chains
    let gi: Vec<RistrettoPoint> = p.gi_base_iter().cloned().collect();
    let hi: Vec<RistrettoPoint> = p.hi_base_iter().cloned().collect();
    if gi.len() != bits * cap || hi.len() != bits * cap {
        return Err(format!("{} / {} vector generators instead of {}", gi.len(), hi.len(), bits * cap));
    }
    for party in 0..cap {
        let g = vec_gens::<RistrettoPoint>(b'G', party as u32, bits);
        let h = vec_gens::<RistrettoPoint>(b'H', party as u32, bits);
        for j in 0..bits {
            if gi[party * bits + j] != g[j] {
                return Err(format!("G generator (party {}, index {}) differs from the documented derivation", party, j));
            }
            if hi[party * bits + j] != h[j] {
                return Err(format!("H generator (party {}, index {}) differs from the documented derivation", party, j));
            }
        }
    }
    // generator (party i, index j) is the same point however the caller walks the iterators: strides, skips, `nth` on a partly
    // consumed iterator
    {
        let n = gi.len();
        let mut r = chacha(gp.bulk ^ 0x17e7);
        for (name, want, mk) in [("gi_base_iter", &gi, 0u8), ("hi_base_iter", &hi, 1u8)] {
            let it = || -> Box<dyn Iterator<Item = &RistrettoPoint> + '_> { if mk == 0 { Box::new(p.gi_base_iter()) } else { Box::new(p.hi_base_iter()) } };
            for stride in [2usize, 3, 5, 7, bits.max(2) - 1, bits + 1, 65] {
                let got: Vec<RistrettoPoint> = guarded(|| it().step_by(stride).cloned().collect())?;
                let exp: Vec<RistrettoPoint> = want.iter().step_by(stride).cloned().collect();
                if got != exp {
                    return Err(format!("{}().step_by({}) does not yield generators 0, {}, {}, ..", name, stride, stride, 2 * stride));
                }
            }
            for _ in 0..6 {
                let a = (r.next_u64() as usize) % (n + 1);
                let b = (r.next_u64() as usize) % (n + 2);
                let got: Option<RistrettoPoint> = guarded(|| {
                    let mut i = it();
                    for _ in 0..a {
                        i.next();
                    }
                    i.nth(b).cloned()
                })?;
                if got != want.get(a + b).cloned() {
                    return Err(format!("{}(): nth({}) after {} calls of next() is not generator {}", name, b, a, a + b));
                }
                let got: Option<RistrettoPoint> = guarded(|| it().skip(a).last().cloned())?;
                if got != if a < n { want.last().cloned() } else { None } {
                    return Err(format!("{}().skip({}).last() is not the last generator", name, a));
                }
            }
            if guarded(|| it().count())? != n {
                return Err(format!("{}().count() != {}", name, n));
            }
        }
    }
    // an existing parameter object overwritten through Clone::clone_from with this one is this one
    if bits * cap <= 1024 {
        let other_bits = if bits == 64 { 32 } else { bits * 2 };
        let mut a = RangeParameters::<RistrettoPoint>::init(other_bits, if cap >= 2 { cap / 2 } else { 2 }, ristretto::create_pedersen_gens_with_extension_degree(ext_of(ext % 6 + 1)))
            .map_err(crate::runner::skip_err)?;
        guarded(|| a.clone_from(&p))?;
        if digest_r(&a) != digest_r(&p) {
            return Err("a parameter object overwritten with clone_from does not hand out the source's generators".into());
        }
        let n2 = 2 * gi.len();
        let mut c = vec![Scalar::ZERO; n2];
        let pos = (gp.bulk as usize) % n2;
        c[pos] = Scalar::ONE;
        let d = Scalar::from(7u8);
        let got = guarded(|| a.precomp().vartime_mixed_multiscalar_mul(c.iter(), [d].iter(), [*p.h_base()].iter()))?;
        let want = if pos % 2 == 0 { gi[pos / 2] } else { hi[pos / 2] } + d * *p.h_base();
        if got != want {
            return Err("the precomputed table of a parameter object overwritten with clone_from is not the source's table".into());
        }
    }
    // pairwise distinct, none the identity
    let all = digest_r(&p);
    let mut seen = HashSet::new();
    for (i, b) in all.iter().enumerate() {
        if *b == [0u8; 32] {
            return Err(format!("generator #{} of the parameter set is the identity", i));
        }
        if !seen.insert(*b) {
            return Err(format!("generator #{} of the parameter set duplicates an earlier one", i));
        }
    }
    let id = RistrettoPoint::identity();
    if gi.iter().chain(hi.iter()).chain(p.g_bases().iter()).any(|x| *x == id) {
        return Err("a generator is the identity point".into());
    }
    // the precomputed table represents exactly the interleaved vector generators: random linear combination test
    let interleaved: Vec<RistrettoPoint> = gi.iter().zip(hi.iter()).flat_map(|(g, h)| [*g, *h]).collect();
    let mut rng = chacha(gp.bulk);
    let n = interleaved.len();
    let mut tests: Vec<Vec<Scalar>> = vec![(0..n).map(|_| rand_scalar(&mut rng)).collect()];
    for _ in 0..3 {
        // sparse supports localise a wrong / permuted entry
        let mut c = vec![Scalar::ZERO; n];
        for _ in 0..3 {
            c[(rng.next_u64() as usize) % n] = rand_scalar(&mut rng);
        }
        tests.push(c);
    }
    let mut unit = vec![Scalar::ZERO; n];
    unit[(rng.next_u64() as usize) % n] = Scalar::ONE;
    tests.push(unit);
    let table = p.precomp();
    for c in &tests {
        let got = guarded(|| table.vartime_multiscalar_mul(c.iter()))?;
        let want = RistrettoPoint::vartime_multiscalar_mul(c.iter(), interleaved.iter());
        if got != want {
            let support: Vec<usize> = c.iter().enumerate().filter(|(_, s)| **s != Scalar::ZERO).map(|(i, _)| i).take(4).collect();
            return Err(format!(
                "precomputed table does not represent the interleaved vector generators (coefficients on positions {:?}{})",
                support,
                if support.len() == 4 { ", .." } else { "" }
            ));
        }
    }
    // ... and in the way prover and verifier USE the table: together with dynamic terms, and with a prefix of the static scalars
    let dyn_points = [*p.h_base(), p.g_bases()[0], interleaved[n - 1]];
    for (ti, c) in tests.iter().enumerate() {
        // (the table wants one static scalar per entry; prover and verifier pad with zeros, as the second half does here)
        for (what, len) in [("all static scalars", n), ("static scalars that are zero beyond the first half", (n / 2).max(2))] {
            let d: Vec<Scalar> = (0..1 + ti % 3).map(|_| rand_scalar(&mut rng)).collect();
            let pts = &dyn_points[..d.len()];
            let mut cc = c.clone();
            for x in cc.iter_mut().skip(len) {
                *x = Scalar::ZERO;
            }
            let got = guarded(|| table.vartime_mixed_multiscalar_mul(cc.iter(), d.iter(), pts.iter()))?;
            let want = RistrettoPoint::vartime_multiscalar_mul(cc.iter().chain(d.iter()), interleaved.iter().chain(pts.iter()));
            if got != want {
                return Err(format!(
                    "precomputed table used with {} and {} dynamic term(s) does not evaluate the interleaved vector generators",
                    what,
                    d.len()
                ));
            }
        }
    }
    // the compressed forms HANDED TO THE TRANSCRIPT are the encodings of the same points: observe what prover and verifier
    // absorb for H and G (small parameter sets; one commitment)
    if bits * cap <= 64 {
        use crate::tapx::{tapped, tapped_prover, Event};
        use tari_bulletproofs_plus::{commitment_opening::CommitmentOpening, range_proof::{RangeProof, VerifyAction}, range_statement::RangeStatement, range_witness::RangeWitness};
        let r: Vec<Scalar> = (0..ext).map(|k| Scalar::from(k as u64 + 3)).collect();
        let c = p.pc_gens().commit(&Scalar::ONE, &r).map_err(crate::runner::skip_err)?;
        let st = RangeStatement::init(p.clone(), vec![c], vec![None], None).map_err(crate::runner::skip_err)?;
        let w = RangeWitness::init(vec![CommitmentOpening::new(1, r)]).map_err(crate::runner::skip_err)?;
        let (proof, pev) = tapped_prover(|| guarded(|| RangeProof::prove_with_rng(&mut merlin::Transcript::new(b"c11"), &st, &w, &mut crate::eng::RngSpec::ChaCha(gp.bulk).make())));
        let proof = proof?.map_err(crate::runner::skip_err)?;
        let (res, vev) = tapped(|| guarded(|| RangeProof::verify_batch(&mut [merlin::Transcript::new(b"c11")], &[st.clone()], &[proof.clone()], VerifyAction::VerifyOnly)));
        res?.map_err(crate::runner::skip_err)?;
        for (who, ev) in [("prover", &pev), ("verifier", &vev)] {
            let hs: Vec<&Vec<u8>> = ev.iter().filter_map(|e| if let Event::Append { label, data } = e { if label == b"H" { Some(data) } else { None } } else { None }).collect();
            let gs: Vec<&Vec<u8>> = ev.iter().filter_map(|e| if let Event::Append { label, data } = e { if label == b"G" { Some(data) } else { None } } else { None }).collect();
            // (a party may run the protocol's absorptions more than once - on clones, to re-derive challenges - so the messages
            // are judged by content: every H message is the encoding of h, the G messages are the list g_0..g_{d-1}, repeated)
            if hs.is_empty() || hs.iter().any(|x| x.as_slice() != p.h_base().compress().as_bytes()) {
                return Err(format!("the {} does not hand the encoding of the value generator to the transcript", who));
            }
            if gs.len() < ext || gs.len() % ext != 0 || gs.len() / ext != hs.len() {
                return Err(format!("the {} hands {} blinding generators to the transcript at extension degree {} ({} H messages)", who, gs.len(), ext, hs.len()));
            }
            for k in 0..gs.len() {
                if gs[k].as_slice() != p.g_bases()[k % ext].compress().as_bytes() {
                    return Err(format!("the {} hands something other than the encoding of blinding generator {} to the transcript", who, k % ext));
                }
            }
        }
    }
    // deterministic: second construction, clone, other threads
    let again = guarded(build)?.map_err(crate::runner::skip_err)?;
    if digest_r(&again) != all || digest_r(&p.clone()) != all {
        return Err("a second construction (or a clone) yields different generators".into());
    }
    if gp.threads > 0 {
        let results: Vec<Vec<[u8; 32]>> = std::thread::scope(|s| {
            let hs: Vec<_> = (0..gp.threads)
                .map(|_| s.spawn(move || build().map(|p| digest_r(&p)).unwrap_or_default()))
                .collect();
            hs.into_iter().map(|h| h.join().unwrap_or_default()).collect()
        });
        if results.iter().any(|r| *r != all) {
            return Err("construction on another thread yields different generators".into());
        }
    }
    log.label("engine=R");
    log.label(format!("bits={}", bits));
    log.label(format!("cap={}", cap));
    log.label(format!("ext={}", ext));
    log.label(format!("gen:threads={}", gp.threads));
    log.extra_evals += 3 * tests.len() as u64;
    log.nontrivial(&(bits, cap, ext));
    log.sample(json!({"engine": "R", "bits": bits, "capacity": cap, "ext": ext, "generators": all.len(), "table_tests": tests.len(), "threads": gp.threads}));
    Ok(())
}

/// Over the free module the table is directly readable: entry t must be the t-th interleaved generator.
pub fn oracle_f(_ctx: &RunCtx, gp: &GenPoint, log: &mut CaseLog) -> Result<(), String> {
    F::reset_case();
    let GenPoint { bits, cap, ext, .. } = *gp;
    let p = guarded(|| RangeParameters::<FP>::init(bits, cap, F::pedersen(ext)))?.map_err(crate::runner::skip_err)?;
    let gi: Vec<FP> = p.gi_base_iter().cloned().collect();
    let hi: Vec<FP> = p.hi_base_iter().cloned().collect();
    let table = p.precomp();
    if table.0.len() != 2 * bits * cap {
        return Err(format!("table has {} entries instead of 2*bits*capacity = {}", table.0.len(), 2 * bits * cap));
    }
    for party in 0..cap {
        let g = vec_gens::<FP>(b'G', party as u32, bits);
        let h = vec_gens::<FP>(b'H', party as u32, bits);
        for j in 0..bits {
            let t = party * bits + j;
            if gi[t] != g[j] || hi[t] != h[j] {
                return Err(format!("generator (party {}, index {}) differs from the documented derivation", party, j));
            }
            if table.0[2 * t] != g[j] || table.0[2 * t + 1] != h[j] {
                return Err(format!("table entries {} / {} are not G / H of (party {}, index {})", 2 * t, 2 * t + 1, party, j));
            }
        }
    }
    let mut c: Vec<Scalar> = vec![Scalar::ZERO; 2 * bits * cap];
    let mut rng = chacha(gp.bulk);
    let pos = (rng.next_u64() as usize) % c.len();
    c[pos] = Scalar::from(3u8);
    let got = table.vartime_multiscalar_mul(c.iter());
    if got != table.0[pos].scaled(&Scalar::from(3u8)) {
        return Err("table multiscalar multiplication is inconsistent".into());
    }
    log.label("engine=F");
    log.label(format!("bits={}", bits));
    log.label(format!("cap={}", cap));
    log.nontrivial(&(bits, cap, ext, "F"));
    log.sample(json!({"engine": "F", "bits": bits, "capacity": cap, "ext": ext, "table_entries": table.0.len()}));
    Ok(())
}

pub fn def() -> PropertyDef {
    PropertyDef {
        id: "C11",
        level: "exploration",
        rule: "Enumerated grid: bit length in {1,2,4,8,16,32,64} x capacity in {1,2,..,32} (thorough: ..128), continued for small bit lengths until bits*capacity = 2048 (thorough 8192) so that party indices >= 256 occur, x extension degree (all six for small \
               sets, round-robin for large ones), freshly constructed (no cache). Oracle on Ristretto: value generator == basepoint; blinding \
               generator k == SHA3-512(\"RISTRETTO_MASKING_BASEPOINT_<k+1>\") mapped to the group; vector generator (party i, index j) == the \
               independent SHAKE256 chain derivation, party-major; compressed forms == compress(point), and (small sets) the H / G messages that prover and verifier absorb into the transcript, observed through the instrumented merlin copy, are exactly those encodings, one per blinding generator; all compressed generators of the set \
               pairwise distinct and none the identity; precomputed table: for one dense random scalar vector, three sparse ones and one unit \
               vector, table.vartime_multiscalar_mul(c) == sum c_t * (interleaved G_0,H_0,G_1,H_1,..)_t, and the same through vartime_mixed_multiscalar_mul with 1-3 dynamic terms (the call prover and verifier make), with full and with zero-padded static scalars; the same points through step_by / skip / nth on partly consumed iterators; a parameter object overwritten through clone_from equals its source (generators and table); second construction, clone and (for a \
               fifth of the small sets) 8 concurrent constructions give identical bytes. Over the free module the table entries are compared \
               one by one. Racing FIRST use of the lazily cached blinding generators from a cold process is exercised by C18. Non-trivial = \
               every grid point; distinct by (bits, capacity, degree)."
            .into(),
        assumptions: vec!["a wrong or permuted table entry survives one random scalar vector with probability 2^-252".into()],
        exhaustive: true,
        subs: vec![
            sub("R/grid", grid, (0, 0), |_: &RunCtx, f: Option<&GenPoint>| Just(f.cloned().unwrap()), oracle_r),
            sub("F/grid-table-entries", grid, (0, 0), |_: &RunCtx, f: Option<&GenPoint>| Just(f.cloned().unwrap()), oracle_f),
        ],
    }
}
