//! C06 The prover emits a proof exactly when the witness is valid.
use curve25519_dalek::scalar::Scalar;
use proptest::prelude::*;
use serde::{Deserialize, Serialize};
use serde_json::json;
use tari_bulletproofs_plus::{
    commitment_opening::CommitmentOpening,
    range_proof::VerifyAction,
    range_statement::RangeStatement,
    range_witness::RangeWitness,
};

use crate::{
    eng::{Engine, F, R},
    gen::{cfg_strategy, lattice, mask_of, triple_strategy, Cfg, Triple, TripleSpec},
    mutate::pick,
    refimpl::Stmt,
    runner::{guarded, sub, CaseLog, PropertyDef, RunCtx, Sub, Tier},
};

#[derive(Clone, Debug, Serialize, Deserialize, PartialEq, Eq, Hash)]
pub enum Viol {
    None,
    /// 0: half, 1: double, 2: one more, 3: one fewer
    OpeningCount(u8),
    /// witness has one more blinding component than the statement's degree (extra component zero or not)
    DegreeHigher(bool),
    /// witness has one fewer; `reproduces`: the dropped component was zero, so the short opening still reproduces the commitment
    DegreeLower { reproduces: bool },
    ValueDelta { j: u16, plus: bool },
    Blinding { j: u16, k: u16 },
    SwapOpenings(u16, u16),
    /// value >= 2^bits committed consistently; which: 0 => 2^bits, 1 => 2^bits + 1, 2 => u64::MAX;
    /// promise_fix: the promise is chosen so that value - promise < 2^bits
    ValueTooBig { j: u16, which: u8, promise_fix: bool },
    /// TWO values >= 2^bits at once, committed consistently (the only generated double violation: excess bits that are equal,
    /// or differ, at two positions of an aggregate); which_a / which_b: 0 => 2^bits, 1 => 2^bits + 1, 2 => 2^bits + low bits of v, 3 => u64::MAX
    TwoTooBig { i: u16, j: u16, which_a: u8, which_b: u8 },
    /// promise above the value; which: 0 => v + 1, 1 => 2^bits - 1 (if > v), 2 => u64::MAX
    PromiseAbove { j: u16, which: u8 },
    /// hand-edited statement (its fields are public): the compressed copy of commitment j is the encoding of ANOTHER commitment;
    /// the witness opens either that other commitment (`opens_compressed`) or the commitment itself. Only the clause "whenever
    /// a proof is returned it verifies" is judged on such statements.
    CompressedCopy { j: u16, opens_compressed: bool },
    /// the statement's commitment generators were assembled by hand with one masking base fewer (false) or one more (true) than
    /// the degree they declare; the witness has the declared degree. Judged: never a panic, and a returned proof verifies.
    GensBaseCount(bool),
}

fn viol_strategy() -> impl Strategy<Value = Viol> {
    prop_oneof![
        3 => Just(Viol::None),
        2 => (0u8..4).prop_map(Viol::OpeningCount),
        1 => any::<bool>().prop_map(Viol::DegreeHigher),
        2 => any::<bool>().prop_map(|reproduces| Viol::DegreeLower { reproduces }),
        2 => (any::<u16>(), any::<bool>()).prop_map(|(j, plus)| Viol::ValueDelta { j, plus }),
        2 => (any::<u16>(), any::<u16>()).prop_map(|(j, k)| Viol::Blinding { j, k }),
        1 => (any::<u16>(), any::<u16>()).prop_map(|(a, b)| Viol::SwapOpenings(a, b)),
        3 => (any::<u16>(), 0u8..3, any::<bool>()).prop_map(|(j, which, promise_fix)| Viol::ValueTooBig { j, which, promise_fix }),
        3 => (any::<u16>(), 0u8..3).prop_map(|(j, which)| Viol::PromiseAbove { j, which }),
        2 => (any::<u16>(), any::<u16>(), 0u8..4, 0u8..4).prop_map(|(i, j, which_a, which_b)| Viol::TwoTooBig { i, j, which_a, which_b }),
        1 => (any::<u16>(), any::<bool>()).prop_map(|(j, opens_compressed)| Viol::CompressedCopy { j, opens_compressed }),
        1 => any::<bool>().prop_map(Viol::GensBaseCount),
    ]
}

#[derive(Clone, Debug, Serialize, Deserialize)]
pub struct WitSpec {
    pub base: TripleSpec,
    pub viol: Viol,
}

pub fn oracle<E: Engine>(_ctx: &RunCtx, spec: &WitSpec, log: &mut CaseLog) -> Result<(), String> {
    E::reset_case();
    let t = Triple::<E>::build(&spec.base)?;
    let cfg = t.cfg;
    // the statement's own generators, with independent arithmetic
    let (rh, rg) = (t.params.h_base().clone(), t.params.g_bases().to_vec());
    let mut values = t.values.clone();
    let mut promises = t.promises.clone();
    let mut st_blind = t.blindings.clone(); // blindings behind the statement's commitments
    let mut applied = true;
    // adjustments that change the statement side (commitments are recomputed below)
    match &spec.viol {
        Viol::DegreeLower { reproduces: true } => {
            for r in st_blind.iter_mut() {
                let l = r.len();
                r[l - 1] = Scalar::ZERO;
            }
        },
        Viol::ValueTooBig { j, which, promise_fix } => {
            if cfg.bits < 64 {
                let j = pick(*j, cfg.m);
                let big = match which {
                    0 => 1u64 << cfg.bits,
                    1 => (1u64 << cfg.bits) + 1,
                    _ => u64::MAX,
                };
                values[j] = big;
                if *promise_fix {
                    // value - promise fits in the bit length although the value does not
                    promises[j] = Some(big - (t.values[j] & mask_of(cfg.bits)));
                } else if promises[j].unwrap_or(0) > big {
                    promises[j] = None;
                }
            } else {
                applied = false;
            }
        },
        Viol::TwoTooBig { i, j, which_a, which_b } => {
            if cfg.bits < 64 && cfg.m >= 2 {
                let i = pick(*i, cfg.m);
                let mut j = pick(*j, cfg.m);
                if j == i {
                    j = (j + 1) % cfg.m;
                }
                for (pos, which) in [(i, which_a), (j, which_b)] {
                    let big = match which {
                        0 => 1u64 << cfg.bits,
                        1 => (1u64 << cfg.bits) + 1,
                        2 => (1u64 << cfg.bits) | (t.values[pos] & mask_of(cfg.bits)),
                        _ => u64::MAX,
                    };
                    values[pos] = big;
                    if promises[pos].unwrap_or(0) > big {
                        promises[pos] = None;
                    }
                }
            } else {
                applied = false;
            }
        },
        Viol::PromiseAbove { j, which } => {
            let j = pick(*j, cfg.m);
            let v = values[j];
            let p = match which {
                0 => v.checked_add(1),
                1 => Some(mask_of(cfg.bits)).filter(|m| *m > v),
                _ => Some(u64::MAX).filter(|m| *m > v),
            };
            match p {
                Some(p) => promises[j] = Some(p),
                None => applied = false,
            }
        },
        _ => {},
    }
    let commitments: Vec<E::P> = values
        .iter()
        .zip(st_blind.iter())
        .map(|(v, r)| E::commit(t.params.pc_gens(), &Scalar::from(*v), r).map_err(|e| format!("commit: {:?}", e)))
        .collect::<Result<_, _>>()?;
    let mut st = RangeStatement::init(t.params.clone(), commitments.clone(), promises.clone(), t.seed).map_err(|e| format!("statement: {:?}", e))?;
    // witness side
    let mut w_values = values.clone();
    let mut w_blind = st_blind.clone();
    let mut judge_emission = true;
    let mut gens_invalid = false;
    if let Viol::GensBaseCount(more) = &spec.viol {
        let mut pc = t.params.pc_gens().clone();
        if *more {
            let (x, y) = (pc.g_base_vec[0].clone(), pc.g_base_compressed_vec[0]);
            pc.g_base_vec.push(x);
            pc.g_base_compressed_vec.push(y);
        } else {
            pc.g_base_vec.pop();
            pc.g_base_compressed_vec.pop();
        }
        match tari_bulletproofs_plus::range_parameters::RangeParameters::init(cfg.bits, cfg.cap, pc) {
            Ok(params) => {
                st = RangeStatement::init(params, commitments.clone(), promises.clone(), t.seed).map_err(|e| format!("statement: {:?}", e))?;
                gens_invalid = true;
                // whether such a set is refused, or used with its first `degree` bases, is not laid down by the property: only
                // "never a panic" and "a returned proof verifies" are judged
                judge_emission = false;
            },
            // a parameter constructor that refuses the set is fine as well
            Err(_) => applied = false,
        }
    }
    if let Viol::CompressedCopy { j, opens_compressed } = &spec.viol {
        use tari_bulletproofs_plus::traits::Compressable;
        let j = pick(*j, cfg.m);
        let mut other = st_blind[j].clone();
        other[0] += Scalar::ONE;
        let c = E::commit(t.params.pc_gens(), &Scalar::from(values[j]), &other).map_err(|e| format!("commit: {:?}", e))?;
        st.commitments_compressed[j] = c.compress();
        if *opens_compressed {
            w_blind[j] = other;
        }
        judge_emission = false;
    }
    match &spec.viol {
        Viol::OpeningCount(how) => {
            let m = cfg.m;
            let n = match how {
                0 => m / 2,
                1 => m * 2,
                2 => m + 1,
                _ => m - 1,
            };
            if n == 0 || n == m {
                applied = false;
            } else {
                w_values = (0..n).map(|i| values[i % m]).collect();
                w_blind = (0..n).map(|i| st_blind[i % m].clone()).collect();
            }
        },
        Viol::DegreeHigher(zero) => {
            if cfg.ext < 6 {
                for r in w_blind.iter_mut() {
                    r.push(if *zero { Scalar::ZERO } else { Scalar::from(5u8) });
                }
            } else {
                applied = false;
            }
        },
        Viol::DegreeLower { .. } => {
            if cfg.ext > 1 {
                for r in w_blind.iter_mut() {
                    r.pop();
                }
            } else {
                applied = false;
            }
        },
        Viol::ValueDelta { j, plus } => {
            let j = pick(*j, cfg.m);
            w_values[j] = if *plus || w_values[j] == 0 { w_values[j].wrapping_add(1) } else { w_values[j] - 1 };
        },
        Viol::Blinding { j, k } => {
            let j = pick(*j, cfg.m);
            let k = pick(*k, cfg.ext);
            w_blind[j][k] += Scalar::ONE;
        },
        Viol::SwapOpenings(a, b) => {
            if cfg.m >= 2 {
                let i = pick(*a, cfg.m);
                let mut j = pick(*b, cfg.m);
                if i == j {
                    j = (j + 1) % cfg.m;
                }
                w_values.swap(i, j);
                w_blind.swap(i, j);
            } else {
                applied = false;
            }
        },
        _ => {},
    }
    let w_degree = w_blind[0].len();
    let w = RangeWitness::init(
        w_values
            .iter()
            .zip(w_blind.iter())
            .map(|(v, r)| CommitmentOpening::new(*v, r.clone()))
            .collect(),
    )
    .map_err(|e| format!("witness constructor: {:?}", e))?;
    // independent validity predicate
    let valid = w_values.len() == commitments.len() &&
        w_degree == cfg.ext &&
        (0..commitments.len()).all(|j| {
            !gens_invalid &&
                Stmt::<E::P>::commit(&rh, &rg, &Scalar::from(w_values[j]), &w_blind[j]) == commitments[j] &&
                (cfg.bits >= 64 || (w_values[j] as u128) < (1u128 << cfg.bits)) &&
                promises[j].unwrap_or(0) <= w_values[j]
        });
    let r = guarded(|| E::prove(&mut t.transcript(), &st, &w, &mut spec.base.rng.make()))
        .map_err(|e| format!("{} in the prover (violation {:?})", e, spec.viol))?;
    match (&r, valid) {
        _ if !judge_emission => {},
        (Ok(_), false) => {
            return Err(format!(
                "prover EMITTED a proof for an invalid witness: violation {:?} (bits {}, m {}, degree {})",
                spec.viol, cfg.bits, cfg.m, cfg.ext
            ))
        },
        (Err(e), true) => return Err(format!("prover refused a valid witness ({:?}): {:?}", spec.viol, e)),
        _ => {},
    }
    if let Ok(proof) = &r {
        // whenever a proof is returned it verifies
        guarded(|| E::verify(&mut [t.transcript()], &[st.clone()], &[proof.clone()], VerifyAction::VerifyOnly))?
            .map_err(|e| format!("prover emitted a proof that does not verify: {:?}", e))?;
    }
    let kind = format!("{:?}", spec.viol).split([' ', '(', '{']).next().unwrap().to_string();
    log.label(format!("engine={}", E::NAME));
    log.label(format!("violation:{}{}", kind, if applied { "" } else { "(not applicable)" }));
    log.label(format!("witness-valid={}", valid));
    log.labels(t.classes());
    let boundary = t.spec.slots.iter().any(|s| s.vclass == 2 || s.pclass == 2);
    if (applied && spec.viol != Viol::None) || boundary {
        log.nontrivial(&(spec.viol.clone(), cfg.bits, cfg.m, cfg.ext, valid));
    }
    log.sample(json!({"engine": E::NAME, "cfg": cfg, "violation": spec.viol, "values": w_values, "promises": promises, "valid": valid, "proved": r.is_ok()}));
    Ok(())
}

fn sizes<E: Engine>(ctx: &RunCtx) -> (usize, usize) {
    match (E::IS_F, ctx.tier) {
        (true, Tier::Quick) => (512, 32),
        (true, Tier::Thorough) => (2048, 128),
        (false, Tier::Quick) => (128, 16),
        (false, Tier::Thorough) => (512, 32),
    }
}

fn wit_sub<E: Engine>(cases: (usize, usize)) -> Sub {
    sub(
        &format!("{}/single-violation", E::NAME),
        |ctx: &RunCtx| {
            let (s, m) = sizes::<E>(ctx);
            lattice(s, m)
        },
        cases,
        |ctx: &RunCtx, fixed: Option<&Cfg>| {
            let (s, m) = sizes::<E>(ctx);
            let cfg = match fixed {
                Some(c) => Just(*c).boxed(),
                None => cfg_strategy(s, m),
            };
            (triple_strategy(cfg), viol_strategy()).prop_map(|(base, viol)| WitSpec { base, viol })
        },
        oracle::<E>,
    )
}

pub fn def() -> PropertyDef {
    PropertyDef {
        id: "C06",
        level: "exploration",
        rule: "A case is a valid (statement, witness) pair from the C01 generator plus AT MOST ONE violation at a generated position (plus one double violation, two values >= 2^bits at two positions of an aggregate): opening \
               count (half / double / +1 / -1), witness degree +1 (extra component zero or not) or -1 (dropped component zero, so the short \
               opening still reproduces the commitment, or not), value +-1, one blinding component +1, two openings swapped, a value >= 2^bits \
               committed consistently (2^bits, 2^bits+1, u64::MAX; with or without a promise that brings value - promise back into range), a \
               promise above the value (v+1, 2^bits-1, u64::MAX); or a hand-edited statement (public fields) whose compressed copy of commitment j encodes another commitment, the witness opening either of the two - on these only 'a returned proof verifies' is judged; or commitment generators assembled by hand with one masking base fewer / more than the degree they declare (never a panic; a returned proof verifies). Oracle: prove_with_rng is Ok <=> an independently written validity predicate \
               (counts, degree, value*h + sum r_k*g_k == commitment under the statement's generators by independent arithmetic, value < 2^bits in 128-bit arithmetic, promise <= value); Ok => the proof verifies; Err => no panic. Non-trivial = exactly one applied violation, or a boundary value (2^bits-1, \
               promise == value); distinct by (violation incl. position, bits, m, degree, validity)."
            .into(),
        assumptions: vec!["the reference commitment uses the reference's own Pedersen generators".into()],
        exhaustive: false,
        subs: vec![wit_sub::<F>((40_000, 500_000)), wit_sub::<R>((4000, 30_000))],
    }
}
