//! C14 Prover randomness is hedged against failure of the external RNG (fault enumeration).
use curve25519_dalek::scalar::Scalar;
use proptest::prelude::*;
use serde::{Deserialize, Serialize};
use serde_json::json;
use tari_bulletproofs_plus::{
    commitment_opening::CommitmentOpening,
    range_parameters::RangeParameters,
    range_proof::VerifyAction,
    range_statement::RangeStatement,
    range_witness::RangeWitness,
    traits::Compressable,
    PedersenGens,
};

use crate::{
    eng::{ext_of, Engine, RngSpec, F, R},
    fp::{g_id, FP, H_ID},
    gen::{cfg_strategy, ctx_strategy, mask_of, triple_strategy, Cfg, CtxSpec, Triple, TripleSpec},
    mutate::pick,
    props::c13::{extract, Nonces},
    refimpl::{Grp, Proof},
    runner::{guarded, setup, no_fixed, sub, CaseLog, PropertyDef, RunCtx, Sub, Tier},
    tapx::{challenges, tapped_prover},
};

#[derive(Clone, Debug, Serialize, Deserialize, PartialEq, Eq, Hash)]
pub enum Diff {
    Nothing,
    Context(CtxSpec),
    Promise(u16),
    /// the same promise value at another position of the aggregate: [.., Some(q), .., None, ..] against [.., None, .., Some(q), ..]
    PromiseMove(u16, u16),
    /// another blinding => another commitment
    Commitment(u16),
    /// another value, SAME commitment (needs a blinding generator equal to h)
    WitnessValue(u16),
    /// another blinding split, SAME commitment (needs two equal blinding generators)
    WitnessBlinding(u16),
}
impl Diff {
    fn kind(&self) -> &'static str {
        match self {
            Diff::Nothing => "nothing",
            Diff::Context(_) => "context",
            Diff::Promise(_) => "promise",
            Diff::PromiseMove(..) => "promise-moved",
            Diff::Commitment(_) => "commitment",
            Diff::WitnessValue(_) => "witness-value(same commitment)",
            Diff::WitnessBlinding(_) => "witness-blinding(same commitment)",
        }
    }
}

pub fn fault_strategy() -> impl Strategy<Value = RngSpec> {
    prop_oneof![
        Just(RngSpec::Zero),
        any::<u8>().prop_map(RngSpec::Const),
        any::<u64>().prop_map(RngSpec::Period8),
        any::<u64>().prop_map(RngSpec::Counter),
        // replayed healthy stream: the same ChaCha seed is used for both runs
        any::<u64>().prop_map(RngSpec::ChaCha),
    ]
}
fn diff_strategy() -> impl Strategy<Value = Diff> {
    prop_oneof![
        1 => Just(Diff::Nothing),
        2 => ctx_strategy().prop_map(Diff::Context),
        2 => any::<u16>().prop_map(Diff::Promise),
        2 => (any::<u16>(), any::<u16>()).prop_map(|(a, b)| Diff::PromiseMove(a, b)),
        2 => any::<u16>().prop_map(Diff::Commitment),
        3 => any::<u16>().prop_map(Diff::WitnessValue),
        3 => any::<u16>().prop_map(Diff::WitnessBlinding),
    ]
}

#[derive(Clone, Debug, Serialize, Deserialize)]
pub struct HedgeSpec {
    pub base: TripleSpec,
    pub diff: Diff,
    pub delta: u64,
}

struct Run<E: Engine> {
    st: RangeStatement<E::P>,
    w: RangeWitness,
    ctx: CtxSpec,
}

/// Pedersen generators, possibly degenerate: `h_as_last`: g_last = h; `dup`: g_{k2} = g_{k1}
fn pedersen<E: Engine>(ext: usize, h_as_last: bool, dup: Option<(usize, usize)>) -> PedersenGens<E::P> {
    let (h, mut g) = <E::P as Grp>::pedersen(ext);
    if h_as_last {
        g[ext - 1] = h.clone();
    }
    if let Some((k1, k2)) = dup {
        g[k2] = g[k1].clone();
    }
    PedersenGens {
        h_base: h.clone(),
        h_base_compressed: h.compress(),
        g_base_compressed_vec: g.iter().map(|p| p.compress()).collect(),
        g_base_vec: g,
        extension_degree: ext_of(ext),
    }
}

/// the two blinding components between which a same-commitment split is made (generated from `delta`)
pub fn split_pair(delta: u64, ext: usize) -> (usize, usize) {
    let k1 = (delta >> 1) as usize % ext;
    let mut k2 = (delta >> 9) as usize % ext;
    if k2 == k1 {
        k2 = (k1 + 1) % ext;
    }
    (k1, k2)
}

fn build_runs<E: Engine>(spec: &HedgeSpec) -> Result<(Run<E>, Run<E>, Diff, PedersenGens<E::P>, Triple<E>), String> {
    let t = Triple::<E>::build(&spec.base)?;
    let cfg = t.cfg;
    let mut diff = spec.diff.clone();
    // resolve inapplicable differences to applicable ones
    if let Diff::WitnessBlinding(j) = diff {
        if cfg.ext < 2 {
            diff = Diff::WitnessValue(j);
        }
    }
    let mut v2 = t.values.clone();
    let mut r2 = t.blindings.clone();
    let mut p1 = t.promises.clone();
    let mut p2 = t.promises.clone();
    let mut ctx2 = spec.base.ctx.clone();
    let delta = Scalar::from(spec.delta | 1);
    if let Diff::WitnessValue(j) = diff {
        let j = pick(j, cfg.m);
        let v = v2[j];
        let p = p2[j].unwrap_or(0);
        if v < mask_of(cfg.bits) {
            v2[j] = v + 1;
            r2[j][cfg.ext - 1] -= Scalar::ONE;
        } else if v >= 1 && v - 1 >= p {
            v2[j] = v - 1;
            r2[j][cfg.ext - 1] += Scalar::ONE;
        } else {
            diff = Diff::Context(CtxSpec {
                label: spec.base.ctx.label.wrapping_add(1),
                msgs: vec![],
            });
        }
    }
    let (h_as_last, dup) = match diff {
        Diff::WitnessValue(_) => (true, None),
        Diff::WitnessBlinding(_) => (false, Some(split_pair(spec.delta, cfg.ext))),
        _ => (false, None),
    };
    match &diff {
        Diff::Nothing | Diff::WitnessValue(_) => {},
        Diff::Context(c) => {
            ctx2 = c.clone();
            if ctx2 == spec.base.ctx {
                ctx2.msgs.push((0, vec![1]));
            }
        },
        Diff::Promise(j) => {
            let j = pick(*j, cfg.m);
            let p = p2[j].unwrap_or(0);
            if p > 0 {
                p2[j] = Some(p - 1);
            } else if v2[j] >= 1 {
                p2[j] = Some(1);
            } else {
                ctx2.msgs.push((0, vec![2]));
                diff = Diff::Context(ctx2.clone());
            }
        },
        Diff::PromiseMove(a, b) => {
            let i = pick(*a, cfg.m);
            let mut j = pick(*b, cfg.m);
            if j == i {
                j = (j + 1) % cfg.m;
            }
            let q = v2[i].min(v2[j]).min(1 + spec.delta % 7);
            if cfg.m >= 2 && q >= 1 {
                p1[i] = Some(q);
                p1[j] = None;
                p2 = p1.clone();
                p2.swap(i, j);
            } else {
                ctx2.msgs.push((0, vec![3]));
                diff = Diff::Context(ctx2.clone());
            }
        },
        Diff::Commitment(j) => {
            let j = pick(*j, cfg.m);
            r2[j][0] += delta;
        },
        Diff::WitnessBlinding(j) => {
            let j = pick(*j, cfg.m);
            let (k1, k2) = split_pair(spec.delta, cfg.ext);
            r2[j][k1] += delta;
            r2[j][k2] -= delta;
        },
    }
    let pc = pedersen::<E>(cfg.ext, h_as_last, dup);
    let params = RangeParameters::init(cfg.bits, cfg.cap, pc.clone()).map_err(crate::runner::skip_err)?;
    let mk = |vals: &[u64], blinds: &[Vec<Scalar>], proms: &[Option<u64>], ctx: &CtxSpec| -> Result<Run<E>, String> {
        let cs: Vec<E::P> = vals
            .iter()
            .zip(blinds.iter())
            .map(|(v, r)| E::commit(&pc, &Scalar::from(*v), r).map_err(crate::runner::skip_err))
            .collect::<Result<_, _>>()?;
        let st = RangeStatement::init(params.clone(), cs, proms.to_vec(), t.seed).map_err(crate::runner::skip_err)?;
        let w = RangeWitness::init(
            vals.iter()
                .zip(blinds.iter())
                .map(|(v, r)| CommitmentOpening::new(*v, r.clone()))
                .collect(),
        )
        .map_err(crate::runner::skip_err)?;
        Ok(Run { st, w, ctx: ctx.clone() })
    };
    let run1 = mk(&t.values, &t.blindings, &p1, &spec.base.ctx)?;
    let run2 = mk(&v2, &r2, &p2, &ctx2)?;
    if matches!(diff, Diff::WitnessValue(_) | Diff::WitnessBlinding(_)) && run1.st.commitments != run2.st.commitments {
        return Err("generator bug: same-commitment construction produced different commitments".into());
    }
    Ok((run1, run2, diff, pc, t))
}

pub fn oracle_f(_ctx: &RunCtx, spec: &HedgeSpec, log: &mut CaseLog) -> Result<(), String> {
    F::reset_case();
    let (run1, run2, diff, _pc, t) = build_runs::<F>(spec)?;
    let cfg = t.cfg;
    // distinct readable blinding-generator coordinates
    let (g_ids, a_extra): (Vec<u128>, Option<u128>) = match diff {
        Diff::WitnessValue(_) => ((0..cfg.ext - 1).map(g_id).collect(), Some(H_ID)),
        Diff::WitnessBlinding(_) => {
            let (_, k2) = split_pair(spec.delta, cfg.ext);
            ((0..cfg.ext).filter(|k| *k != k2).map(g_id).collect(), None)
        },
        _ => ((0..cfg.ext).map(g_id).collect(), None),
    };
    let prove = |r: &Run<F>| -> Result<(Vec<u8>, Nonces), String> {
        let (p, ev) = tapped_prover(|| guarded(|| F::prove(&mut r.ctx.transcript(), &r.st, &r.w, &mut spec.base.rng.make())));
        let p = setup(p, "the prover refused or panicked on a valid witness (C01's subject)")?;
        // the construction is accepted by the library
        guarded(|| F::verify(&mut [r.ctx.transcript()], &[r.st.clone()], &[p.clone()], VerifyAction::VerifyOnly))?
            .map_err(|e| format!("proof under (possibly degenerate) generators rejected: {:?}", e))?;
        let bytes = p.to_bytes();
        let n = extract(&bytes, &challenges(&ev), &g_ids, cfg.bits, a_extra)?;
        Ok((bytes, n))
    };
    let (b1, n1) = prove(&run1)?;
    // in half of the cases the second run is preceded, on the same thread, by a prover call for ANOTHER witness that is refused
    // late (promise above the value): nothing of that call may survive into the next one
    let mut after_refusal = false;
    if spec.delta & 4 != 0 && t.values[0] < u64::MAX {
        let other: Vec<Vec<Scalar>> = t.blindings.iter().map(|r| r.iter().map(|x| x + Scalar::ONE).collect()).collect();
        let pc = run1.st.generators.pc_gens().clone();
        let cs: Vec<FP> = t
            .values
            .iter()
            .zip(other.iter())
            .map(|(v, r)| F::commit(&pc, &Scalar::from(*v), r).map_err(crate::runner::skip_err))
            .collect::<Result<_, _>>()?;
        let mut proms = run1.st.minimum_value_promises.clone();
        proms[0] = Some(t.values[0] + 1);
        if let Ok(st_bad) = RangeStatement::init(run1.st.generators.clone(), cs, proms, t.seed) {
            let w_bad = RangeWitness::init(t.values.iter().zip(other.iter()).map(|(v, r)| CommitmentOpening::new(*v, r.clone())).collect())
                .map_err(crate::runner::skip_err)?;
            if guarded(|| F::prove(&mut run1.ctx.transcript(), &st_bad, &w_bad, &mut spec.base.rng.make()))?.is_ok() {
                return Err("prover accepted a promise above the value".into());
            }
            after_refusal = true;
        }
    }
    let (b2, n2) = prove(&run2)?;
    if diff == Diff::Nothing {
        if b1 != b2 {
            return Err(format!(
                "identical runs (same inputs, same RNG stream) produced different proofs{}",
                if after_refusal { " - the second one directly after a refused prover call for another witness on the same thread" } else { "" }
            ));
        }
    } else {
        let (s1, s2): (Vec<(String, Scalar)>, Vec<(String, Scalar)>) = if t.seed.is_some() {
            (
                vec![("r".into(), n1.r), ("s".into(), n1.s)],
                vec![("r".into(), n2.r), ("s".into(), n2.s)],
            )
        } else {
            (n1.all(), n2.all())
        };
        for (na, va) in &s1 {
            for (nb, vb) in &s2 {
                if va == vb {
                    return Err(format!(
                        "under RNG model {:?}, two runs differing only in {} share a nonce: {} (run 1) == {} (run 2)",
                        spec.base.rng,
                        diff.kind(),
                        na,
                        nb
                    ));
                }
            }
        }
    }
    log.label("engine=F");
    log.label(format!("hedge:fault={}", spec.base.rng.class()));
    log.label(format!("hedge:diff={}", diff.kind()));
    log.label(format!("hedge:seed={}", t.seed.is_some()));
    log.label(format!("hedge:second-run-after-a-refused-call={}", after_refusal));
    log.labels(t.classes());
    if diff != Diff::Nothing {
        log.nontrivial(&(spec.base.rng.class(), diff.kind(), t.seed.is_some(), cfg, spec.base.bulk));
    }
    log.sample(json!({"engine": "F", "cfg": cfg, "fault": spec.base.rng, "difference": diff.kind(), "seed": t.seed.is_some(),
        "nonces_compared": if t.seed.is_some() { 2 } else { n1.all().len() }}));
    Ok(())
}

/// Ristretto cross-check: nonces are not readable, but when the bit vectors of both runs are equal (context or
/// blinding-split difference) a shared alpha makes A byte-identical, a shared (r, s, eta) makes B byte-identical, etc.
pub fn oracle_r(_ctx: &RunCtx, spec: &HedgeSpec, log: &mut CaseLog) -> Result<(), String> {
    let mut spec = spec.clone();
    if !matches!(spec.diff, Diff::Nothing | Diff::Context(_) | Diff::WitnessBlinding(_)) {
        spec.diff = Diff::WitnessBlinding(spec.delta as u16);
    }
    let (run1, run2, diff, _pc, t) = build_runs::<R>(&spec)?;
    if matches!(diff, Diff::WitnessValue(_)) {
        // degree 1: value difference changes the bit vector, A differs trivially; fall back to reproducibility only
        log.label("hedge:R-skipped(degree 1)");
        return Ok(());
    }
    let prove = |r: &Run<R>| -> Result<Vec<u8>, String> {
        let p = setup(guarded(|| R::prove(&mut r.ctx.transcript(), &r.st, &r.w, &mut spec.base.rng.make())), "the prover refused or panicked on a valid witness (C01's subject)")?;
        setup(
            guarded(|| R::verify(&mut [r.ctx.transcript()], &[r.st.clone()], &[p.clone()], VerifyAction::VerifyOnly)),
            "the honest proof is rejected (C01's subject)",
        )?;
        Ok(p.to_bytes())
    };
    let b1 = prove(&run1)?;
    let b2 = prove(&run2)?;
    if diff == Diff::Nothing {
        if b1 != b2 {
            return Err("identical runs (same inputs, same RNG stream) produced different proofs".into());
        }
    } else if t.seed.is_none() {
        let p1 = Proof::parse_layout(&b1).map_err(crate::runner::skip_err)?;
        let p2 = Proof::parse_layout(&b2).map_err(crate::runner::skip_err)?;
        let mut same = vec![];
        if p1.a == p2.a {
            same.push("A".to_string());
        }
        if p1.a1 == p2.a1 {
            same.push("A1".into());
        }
        if p1.b == p2.b {
            same.push("B".into());
        }
        for j in 0..p1.l.len() {
            if p1.l[j] == p2.l[j] {
                same.push(format!("L[{}]", j));
            }
            if p1.r[j] == p2.r[j] {
                same.push(format!("R[{}]", j));
            }
        }
        if !same.is_empty() {
            return Err(format!(
                "under RNG model {:?}, two runs differing only in {} produce byte-identical proof elements {:?} (shared nonces)",
                spec.base.rng,
                diff.kind(),
                same
            ));
        }
    } else {
        let p1 = Proof::parse_layout(&b1).map_err(crate::runner::skip_err)?;
        let p2 = Proof::parse_layout(&b2).map_err(crate::runner::skip_err)?;
        if p1.b == p2.b {
            return Err(format!("with a seed, B repeats across runs differing in {} (r, s shared)", diff.kind()));
        }
    }
    log.label("engine=R");
    log.label(format!("hedge:fault={}", spec.base.rng.class()));
    log.label(format!("hedge:diff={}", diff.kind()));
    log.labels(t.classes());
    if diff != Diff::Nothing {
        log.nontrivial(&(spec.base.rng.class(), diff.kind(), t.seed.is_some(), t.cfg, spec.base.bulk));
    }
    log.sample(json!({"engine": "R", "cfg": t.cfg, "fault": spec.base.rng, "difference": diff.kind()}));
    Ok(())
}

/// RNG that replays recorded bytes (what a failed external RNG handed to the prover is known to the adversary)
struct FixedRng(Vec<u8>, usize);
impl rand_core::RngCore for FixedRng {
    fn next_u32(&mut self) -> u32 {
        let mut b = [0u8; 4];
        self.fill_bytes(&mut b);
        u32::from_le_bytes(b)
    }

    fn next_u64(&mut self) -> u64 {
        let mut b = [0u8; 8];
        self.fill_bytes(&mut b);
        u64::from_le_bytes(b)
    }

    fn fill_bytes(&mut self, dest: &mut [u8]) {
        for d in dest.iter_mut() {
            *d = self.0.get(self.1).copied().unwrap_or(0);
            self.1 += 1;
        }
    }

    fn try_fill_bytes(&mut self, dest: &mut [u8]) -> Result<(), rand_core::Error> {
        self.fill_bytes(dest);
        Ok(())
    }
}
impl rand_core::CryptoRng for FixedRng {}

fn static_label(l: &[u8]) -> &'static [u8] {
    const KNOWN: [&[u8]; 17] = [
        b"dom-sep", b"H", b"G", b"N", b"T", b"M", b"Ci", b"vi - minimum_value", b"A", b"y", b"z", b"L", b"R", b"e", b"A1", b"B", b"rng",
    ];
    for k in KNOWN {
        if k == l {
            return k;
        }
    }
    Box::leak(l.to_vec().into_boxed_slice())
}

/// "Never computable from public data alone": an adversary who knows the whole public transcript and what the failed RNG
/// returned rebuilds, at every point where the prover rebuilt its RNG, the transcript RNG WITHOUT the witness, and draws
/// from it. None of the prover's RNG-derived nonces may be among those draws.
pub fn public_oracle(_ctx: &RunCtx, spec: &HedgeSpec, log: &mut CaseLog) -> Result<(), String> {
    use crate::tapx::Event;
    F::reset_case();
    let t = Triple::<F>::build(&spec.base)?;
    let cfg = t.cfg;
    let g_ids: Vec<u128> = (0..cfg.ext).map(g_id).collect();
    let start = t.transcript();
    let mut tr = start.clone();
    let (p, ev) = tapped_prover(|| guarded(|| F::prove(&mut tr, &t.st, &t.w, &mut spec.base.rng.make())));
    let p = setup(p, "the prover refused or panicked on a valid witness (C01's subject)")?;
    let nonces = extract(&p.to_bytes(), &challenges(&ev), &g_ids, cfg.bits, None)?;
    // adversary
    let mut adv = start;
    let mut candidates: Vec<(usize, Scalar)> = vec![];
    let mut builds = 0usize;
    for e in &ev {
        match e {
            Event::Append { label, data } => adv.append_message(static_label(label), data),
            Event::Challenge { label, out } => {
                let mut buf = vec![0u8; out.len()];
                adv.challenge_bytes(static_label(label), &mut buf);
                if &buf != out {
                    return Err(format!("{} replay of the public transcript diverges from the prover's", crate::runner::INCONCLUSIVE));
                }
            },
            Event::Finalize { external } => {
                builds += 1;
                let mut rng = adv.build_rng().finalize(&mut FixedRng(external.clone(), 0));
                for _ in 0..(2 * cfg.ext + 4) {
                    candidates.push((builds, Scalar::random(&mut rng)));
                }
            },
            _ => {},
        }
    }
    if builds == 0 {
        return Err(format!("{} the prover never finalised a transcript RNG", crate::runner::INCONCLUSIVE));
    }
    let mine: Vec<(String, Scalar)> = if t.seed.is_some() {
        vec![("r".into(), nonces.r), ("s".into(), nonces.s)]
    } else {
        nonces.all()
    };
    for (name, v) in &mine {
        if let Some((b, _)) = candidates.iter().find(|(_, c)| c == v) {
            return Err(format!(
                "nonce {} is computable from public data and the output of the (failed) RNG alone: it equals a draw from the un-keyed transcript RNG at rebuild #{} of {} (aggregation {}, degree {})",
                name, b, builds, cfg.m, cfg.ext
            ));
        }
    }
    log.label("engine=F");
    log.label(format!("public:fault={}", spec.base.rng.class()));
    log.label(format!("public:seed={}", t.seed.is_some()));
    log.label(format!("public:rng-rebuilds={}", builds.min(12)));
    log.labels(t.classes());
    log.nontrivial(&(cfg, spec.base.rng.class(), t.seed.is_some(), spec.base.bulk));
    log.sample(json!({"engine": "F", "kind": "public recomputation", "cfg": cfg, "fault": spec.base.rng, "rng_rebuilds": builds,
        "adversary_draws": candidates.len(), "nonces_checked": mine.len()}));
    Ok(())
}

fn hedge_strategy(max: usize, maxm: usize) -> impl Strategy<Value = HedgeSpec> {
    (triple_strategy(cfg_strategy(max, maxm)), fault_strategy(), diff_strategy(), any::<u64>()).prop_map(|(mut base, rng, diff, delta)| {
        base.rng = rng;
        HedgeSpec { base, diff, delta }
    })
}

fn subs() -> Vec<Sub> {
    vec![
        sub(
            "F/fault-x-difference",
            no_fixed,
            (30_000, 400_000),
            |ctx: &RunCtx, _: Option<&()>| hedge_strategy(if ctx.tier == Tier::Quick { 256 } else { 1024 }, 16),
            oracle_f,
        ),
        sub(
            "F/public-recomputation",
            no_fixed,
            (8000, 100_000),
            |ctx: &RunCtx, _: Option<&()>| hedge_strategy(if ctx.tier == Tier::Quick { 256 } else { 1024 }, 32),
            public_oracle,
        ),
        sub(
            "R/fault-x-difference",
            no_fixed,
            (3000, 25_000),
            |ctx: &RunCtx, _: Option<&()>| hedge_strategy(if ctx.tier == Tier::Quick { 64 } else { 256 }, 8),
            oracle_r,
        ),
    ]
}

pub fn def() -> PropertyDef {
    let _: Option<Cfg> = None;
    PropertyDef {
        id: "C14",
        level: "fault_enumeration",
        rule: "Fault models of the external RNG {all-zero, constant byte, 8-byte period, counter, replayed ChaCha stream} x a pair of prover runs \
               fed the SAME faulty stream and differing in exactly one of {nothing, transcript context, one promise, one promise value moved to another position of the aggregate ([Some(q), None] against [None, Some(q)]), one commitment (other \
               blinding), witness value with the SAME commitment (blinding generator g_last := h, so (v; r_last) and (v+-1; r_last-+1) collide), \
               witness blinding split between two generated components k1, k2 with the SAME commitment (g_k2 := g_k1)} at a generated position of the aggregate, with and without a seed. \
               Engine F reads every nonce as a coordinate (see C13). Oracle: 'nothing' => byte-identical proofs (in half of the cases the second run directly follows, on the same thread, a prover call for another witness that is refused late); otherwise the RNG-derived \
               nonces (all of them without a seed; r and s with one) of the two runs are pairwise different. Second oracle (engine F), 'never computable from public data alone': an adversary who knows the public transcript and the failed RNG's output rebuilds, at every rebuild point, the transcript RNG without the witness and draws from it; no RNG-derived nonce of the proof may be among those draws. Engine R cross-check: for context / \
               blinding-split differences no proof element may be byte-identical across the runs. Non-trivial = a one-field difference; distinct \
               by (fault model, difference kind, seed?, configuration, case)."
            .into(),
        assumptions: vec![
            "degenerate Pedersen generator sets are built as struct literals (the type has public fields and no validating constructor); the library accepts them and the proofs verify".into(),
            "supporting tap events (rekey / finalize) are not part of the oracle: a refactor may key the RNG differently and still satisfy the property".into(),
        ],
        exhaustive: false,
        subs: subs(),
    }
}
