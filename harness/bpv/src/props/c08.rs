//! C08 Batch weighting: defects in different proofs can never cancel (adaptive histories over the free module).
use curve25519_dalek::scalar::Scalar;
use proptest::prelude::*;
use serde::{Deserialize, Serialize};
use serde_json::json;
use tari_bulletproofs_plus::range_proof::{RangeProof, VerifyAction};

use crate::{
    eng::{Engine, F, R},
    fp::{self, g_id, FP},
    gen::BITS,
    mutate::pick,
    props::c03::{build_member, cancel_sub, pool_member_valid, verify_members, Member, PoolMember},
    refimpl::{Grp, Proof},
    runner::{guarded, SKIP, no_fixed, sub, CaseLog, PropertyDef, RunCtx, INCONCLUSIVE},
};

#[derive(Clone, Debug, Serialize, Deserialize, PartialEq, Eq, Hash)]
pub enum Slot {
    R1,
    S1,
    D1(u16),
    /// +1 on one d1 coordinate and -1 on another (the sum of the d1 vector is unchanged); degree >= 2
    D1Pair(u16, u16),
}

#[derive(Clone, Debug, Serialize, Deserialize)]
pub enum Step {
    /// bump one response scalar of one member, read the weights again, compare the ratios
    Reprobe { member: u16, slot: Slot },
    /// adaptive attack on coordinate `coord` between members i and j using factors observed on earlier runs of the same batch
    Attack { i: u16, j: u16, coord: u16, delta: u64 },
    /// (batches with a repeated member) bump the same response scalar in BOTH copies, read the factors again
    ReprobeTwins { slot: Slot },
    /// (batches with a repeated member) the same offset on d1[coord] of both copies, compensated on a third member
    AttackTwins { other: u16, coord: u16, delta: u64 },
}

#[derive(Clone, Debug, Serialize, Deserialize)]
pub struct HistSpec {
    pub bits_idx: u8,
    pub ext: usize,
    pub members: Vec<PoolMember>,
    pub script: Vec<Step>,
    pub mode: bool,
    /// indices of members that appear a second time in the batch (identical statement, proof and context)
    #[serde(default)]
    pub repeats: Vec<u16>,
}

fn slot_strategy() -> impl Strategy<Value = Slot> {
    prop_oneof![Just(Slot::R1), Just(Slot::S1), any::<u16>().prop_map(Slot::D1), any::<u16>().prop_map(Slot::D1), (any::<u16>(), any::<u16>()).prop_map(|(a, b)| Slot::D1Pair(a, b))]
}
pub fn hist_strategy() -> impl Strategy<Value = HistSpec> {
    (
        1u8..=3,
        1usize..=6,
        prop::collection::vec(pool_member_valid(), 2..=6),
        prop::collection::vec(
            prop_oneof![
                (any::<u16>(), slot_strategy()).prop_map(|(member, slot)| Step::Reprobe { member, slot }),
                (any::<u16>(), any::<u16>(), any::<u16>(), prop_oneof![Just(1u64), any::<u64>()])
                    .prop_map(|(i, j, coord, delta)| Step::Attack { i, j, coord, delta }),
                slot_strategy().prop_map(|slot| Step::ReprobeTwins { slot }),
                (any::<u16>(), any::<u16>(), prop_oneof![Just(1u64), any::<u64>()]).prop_map(|(other, coord, delta)| Step::AttackTwins { other, coord, delta }),
            ],
            1..=4,
        ),
        any::<bool>(),
        prop_oneof![3 => Just(vec![]), 2 => prop::collection::vec(any::<u16>(), 1..=2)],
    )
        .prop_map(|(bits_idx, ext, members, script, mode, repeats)| HistSpec {
            bits_idx,
            ext,
            members,
            script,
            mode,
            repeats,
        })
}

/// proofs in editable form
fn edit(m: &Member<F>, f: impl FnOnce(&mut Proof)) -> Result<RangeProof<FP>, String> {
    let mut pf = Proof::parse_layout(&m.proof.to_bytes()).map_err(crate::runner::skip_err)?;
    f(&mut pf);
    RangeProof::<FP>::from_bytes(&pf.encode()).map_err(|e| format!("re-decode: {:?}", e))
}
fn bump_pair(pf: &mut Proof, a: u16, b: u16) {
    let n = pf.d1.len();
    if n < 2 {
        add(&mut pf.d1[0], Scalar::ONE);
        return;
    }
    let i = pick(a, n);
    let mut j = pick(b, n);
    if j == i {
        j = (j + 1) % n;
    }
    add(&mut pf.d1[i], Scalar::ONE);
    add(&mut pf.d1[j], -Scalar::ONE);
}
fn add(b: &mut [u8; 32], d: Scalar) {
    *b = (Scalar::from_bytes_mod_order(*b) + d).to_bytes();
}

/// Run the batch verifier and return (accepted, final multiscalar result)
fn run(ms: &[Member<F>], proofs: &[RangeProof<FP>], action: VerifyAction) -> Result<(bool, FP), String> {
    let with: Vec<Member<F>> = ms
        .iter()
        .zip(proofs.iter())
        .map(|(m, p)| Member {
            st: m.st.clone(),
            proof: p.clone(),
            ctx: m.ctx.clone(),
            valid: m.valid,
            mask: None,
            m: m.m,
            cap: m.cap,
            altered: true,
        })
        .collect();
    let refs: Vec<&Member<F>> = with.iter().collect();
    fp::msm_log_start();
    let r = verify_members::<F>(&refs, action);
    let log = fp::msm_log_stop();
    let r = r?;
    let res = log
        .last()
        .cloned()
        .ok_or(format!("{} batch verifier performed no precomputed multiscalar multiplication", INCONCLUSIVE))?;
    if r.is_ok() != res.is_zero() {
        return Err(format!("{} verdict and final multiscalar result disagree", INCONCLUSIVE));
    }
    Ok((r.is_ok(), res))
}

const MARK: u128 = 0x3_0000_0000;

/// Weights of one run, read from markers planted in every B (the run itself is of course rejected)
fn weights(ms: &[Member<F>], proofs: &[RangeProof<FP>], action: VerifyAction) -> Result<Vec<Scalar>, String> {
    weights_grouped(ms, proofs, action, None)
}

/// `merge`: the two members of a repeated pair get the SAME marker (so they stay byte-identical); both entries of the
/// result then hold the SUM of their two factors
fn weights_grouped(ms: &[Member<F>], proofs: &[RangeProof<FP>], action: VerifyAction, merge: Option<(usize, usize)>) -> Result<Vec<Scalar>, String> {
    let marker = |i: usize| match merge {
        Some((a, b)) if i == b => MARK + a as u128,
        _ => MARK + i as u128,
    };
    let marked: Vec<RangeProof<FP>> = ms
        .iter()
        .zip(proofs.iter())
        .enumerate()
        .map(|(i, (m, p))| {
            let mm = Member::<F> {
                st: m.st.clone(),
                proof: p.clone(),
                ctx: m.ctx.clone(),
                valid: true,
                mask: None,
                m: m.m,
                cap: m.cap,
                altered: false,
            };
            edit(&mm, |pf| {
                let b = <FP as Grp>::dec(&pf.b).expect("B decodes");
                pf.b = b.add(&FP::basis(marker(i))).enc();
            })
        })
        .collect::<Result<_, _>>()?;
    let (_, res) = run(ms, &marked, action)?;
    Ok((0..ms.len()).map(|i| -res.coef(marker(i))).collect())
}

/// What an adversary who knows the algorithm computes before submitting: the factor with which a unit shift of d1[k] of the
/// members `xs` enters the final equation of THIS batch (no marker, so the transcripts are those of the batch he will submit)
fn probe_factor(ms: &[Member<F>], proofs: &[RangeProof<FP>], action: VerifyAction, xs: &[usize], k: usize) -> Result<Scalar, String> {
    let (_, base) = run(ms, proofs, action)?;
    let mut shifted = proofs.to_vec();
    for &x in xs {
        let mem = Member::<F> {
            st: ms[x].st.clone(),
            proof: proofs[x].clone(),
            ctx: ms[x].ctx.clone(),
            valid: true,
            mask: None,
            m: ms[x].m,
            cap: ms[x].cap,
            altered: false,
        };
        shifted[x] = edit(&mem, |pf| add(&mut pf.d1[k], Scalar::ONE))?;
    }
    let (_, res) = run(ms, &shifted, action)?;
    Ok(res.coef(g_id(k)) - base.coef(g_id(k)))
}

pub fn oracle(ctx: &RunCtx, spec: &HistSpec, log: &mut CaseLog) -> Result<(), String> {
    oracle_impl(ctx, spec, log, true)
}

/// The same histories judged for ACCEPTANCE only (used by C02: a batch accepted although no member satisfies the relation);
/// how the factors move is C08's subject and is not judged here.
pub fn oracle_acceptance_only(ctx: &RunCtx, spec: &HistSpec, log: &mut CaseLog) -> Result<(), String> {
    oracle_impl(ctx, spec, log, false)
}

/// The same histories judged for C03's equivalence only: a batch that the library ACCEPTS although the library REJECTS one of
/// its members when that member is verified alone.
pub fn oracle_iff_only(ctx: &RunCtx, spec: &HistSpec, log: &mut CaseLog) -> Result<(), String> {
    IFF_ONLY.with(|c| c.set(true));
    let r = oracle_impl(ctx, spec, log, false);
    IFF_ONLY.with(|c| c.set(false));
    r
}

thread_local! {
    static IFF_ONLY: std::cell::Cell<bool> = const { std::cell::Cell::new(false) };
}

/// under `oracle_iff_only` an accepted attack batch counts only if the library itself rejects one of the altered members alone
fn accepted_counts(ms: &[Member<F>], next: &[RangeProof<FP>], altered: &[usize]) -> Result<Option<String>, String> {
    if !IFF_ONLY.with(|c| c.get()) {
        return Ok(Some(String::new()));
    }
    for &x in altered {
        if !crate::props::c03::singleton::<F>(&ms[x].ctx, &ms[x].st, &next[x])? {
            return Ok(Some(format!(" although member {} is REJECTED when verified alone", x)));
        }
    }
    Ok(None)
}

fn oracle_impl(_ctx: &RunCtx, spec: &HistSpec, log: &mut CaseLog, judge_factors: bool) -> Result<(), String> {
    F::reset_case();
    let bits = BITS[spec.bits_idx as usize % BITS.len()].max(2);
    let ms: Vec<Member<F>> = spec
        .members
        .iter()
        .map(|pm| build_member::<F>(bits, spec.ext, pm, bits.max(16)))
        .collect::<Result<_, _>>()?;
    let mut ms = ms;
    let mut twin: Option<(usize, usize)> = None;
    for r in &spec.repeats {
        let src = pick(*r, ms.len());
        let c = Member::<F> {
            st: ms[src].st.clone(),
            proof: ms[src].proof.clone(),
            ctx: ms[src].ctx.clone(),
            valid: true,
            mask: None,
            m: ms[src].m,
            cap: ms[src].cap,
            altered: false,
        };
        // directly after its original
        ms.insert(src + 1, c);
        twin = Some((src, src + 1));
    }
    let n = ms.len();
    let action = if spec.mode { VerifyAction::VerifyOnly } else { VerifyAction::RecoverAndVerify };
    let honest: Vec<RangeProof<FP>> = ms.iter().map(|m| m.proof.clone()).collect();
    let (ok, _) = run(&ms, &honest, action)?;
    if !ok {
        return Err(format!("{} the all-honest batch is rejected (C01's / C03's subject)", SKIP));
    }
    // (1) every factor is nonzero
    let w0 = weights(&ms, &honest, action)?;
    for (i, w) in w0.iter().enumerate() {
        if judge_factors && *w == Scalar::ZERO {
            return Err(format!("the factor of member {} of {} in the batch equation is zero", i, n));
        }
    }
    let mut current = honest.clone();
    let mut shapes = vec![];
    for step in &spec.script {
        match step {
            Step::Reprobe { member, slot } => {
                let i = pick(*member, n);
                let mem = Member::<F> {
                    st: ms[i].st.clone(),
                    proof: current[i].clone(),
                    ctx: ms[i].ctx.clone(),
                    valid: true,
                    mask: None,
                    m: ms[i].m,
                    cap: ms[i].cap,
                    altered: false,
                };
                let before = weights(&ms, &current, action)?;
                let changed = edit(&mem, |pf| match slot {
                    Slot::R1 => add(&mut pf.r1, Scalar::ONE),
                    Slot::S1 => add(&mut pf.s1, Scalar::ONE),
                    Slot::D1(k) => {
                        let k = pick(*k, pf.d1.len());
                        add(&mut pf.d1[k], Scalar::ONE)
                    },
                    Slot::D1Pair(a, b) => bump_pair(pf, *a, *b),
                })?;
                let mut next = current.clone();
                next[i] = changed;
                let after = weights(&ms, &next, action)?;
                for (x, w) in after.iter().enumerate() {
                    if judge_factors && *w == Scalar::ZERO {
                        return Err(format!("the factor of member {} became zero after changing a response scalar of member {}", x, i));
                    }
                }
                // (2) the ratio between member i's factor and every other member's factor moved
                for j in 0..n {
                    if j == i {
                        continue;
                    }
                    if judge_factors && before[i] * after[j] == after[i] * before[j] {
                        return Err(format!(
                            "the ratio of the factors of members {} and {} did not change when response scalar {:?} of member {} changed (batch of {})",
                            i, j, slot, i, n
                        ));
                    }
                }
                current = next;
                shapes.push(format!("reprobe:{:?}", slot).split('(').next().unwrap().to_string());
            },
            Step::Attack { i, j, coord, delta } => {
                let i = pick(*i, n);
                let mut j = pick(*j, n);
                if j == i {
                    j = (j + 1) % n;
                }
                let k = pick(*coord, spec.ext);
                let d = Scalar::from((*delta).max(1));
                // offsets chosen with the factors the verifier applied on earlier runs of this very batch (one run per member
                // with a unit shift): if the factors do not move with the response scalars, these offsets cancel
                let wi = probe_factor(&ms, &current, action, &[i], k)?;
                let wj = probe_factor(&ms, &current, action, &[j], k)?;
                if wj == Scalar::ZERO || wi == Scalar::ZERO {
                    if judge_factors {
                        return Err(format!("a unit shift of d1[{}] of member {} or {} does not enter the batch equation at all", k, i, j));
                    }
                    continue;
                }
                let di = d;
                let mk = |x: usize, dd: Scalar, cur: &RangeProof<FP>| {
                    let mem = Member::<F> {
                        st: ms[x].st.clone(),
                        proof: cur.clone(),
                        ctx: ms[x].ctx.clone(),
                        valid: true,
                        mask: None,
                        m: ms[x].m,
                        cap: ms[x].cap,
                        altered: false,
                    };
                    edit(&mem, |pf| add(&mut pf.d1[k], dd))
                };
                // two guesses for the ratio of the factors on the run to come: the one observed, and one (equal and opposite offsets)
                let mut res = FP::default();
                for (guess, ratio) in [("w_i/w_j as observed on earlier runs", wi * wj.invert()), ("1 (equal and opposite offsets)", Scalar::ONE)] {
                    let dj = -(d * ratio);
                    let mut next = current.clone();
                    next[i] = mk(i, di, &current[i])?;
                    next[j] = mk(j, dj, &current[j])?;
                    let (ok, r) = run(&ms, &next, action)?;
                    res = r;
                    if ok {
                        if let Some(why) = accepted_counts(&ms, &next, &[i, j])? {
                            return Err(format!(
                                "ADAPTIVE CANCELLATION ACCEPTED: offsets +d on d1[{}] of member {} and -d*ratio on member {}, ratio = {}, verify as a batch of {}{}{}",
                                k, i, j, guess, n, if twin == Some((i.min(j), i.max(j))) { " (the two members are copies of one proof)" } else { "" }, why
                            ));
                        }
                    }
                }
                if judge_factors && res.coef(g_id(k)) == Scalar::ZERO && current == honest {
                    return Err(format!(
                        "offsets computed from previously observed factors cancel on blinding generator {} (members {} and {})",
                        k, i, j
                    ));
                }
                shapes.push("attack".into());
                log.nontrivial(&(n, i, j, k, shapes.clone(), spec.ext, bits));
            },
            Step::ReprobeTwins { slot } => {
                let (a, b) = match twin {
                    Some(t) if n >= 3 => t,
                    _ => continue,
                };
                let before = weights_grouped(&ms, &current, action, Some((a, b)))?;
                let mut next = current.clone();
                for x in [a, b] {
                    let mem = Member::<F> {
                        st: ms[x].st.clone(),
                        proof: current[x].clone(),
                        ctx: ms[x].ctx.clone(),
                        valid: true,
                        mask: None,
                        m: ms[x].m,
                        cap: ms[x].cap,
                        altered: false,
                    };
                    next[x] = edit(&mem, |pf| match slot {
                        Slot::R1 => add(&mut pf.r1, Scalar::ONE),
                        Slot::S1 => add(&mut pf.s1, Scalar::ONE),
                        Slot::D1(k) => {
                            let k = pick(*k, pf.d1.len());
                            add(&mut pf.d1[k], Scalar::ONE)
                        },
                        Slot::D1Pair(a, b) => bump_pair(pf, *a, *b),
                    })?;
                }
                let after = weights_grouped(&ms, &next, action, Some((a, b)))?;
                for x in 0..n {
                    if x == a || x == b {
                        continue;
                    }
                    // before[a] / after[a] hold the SUM of the two copies' factors
                    if judge_factors && before[a] * after[x] == after[a] * before[x] {
                        return Err(format!(
                            "the ratio of the factors of members {} and {} did not change when response scalar {:?} changed in both copies ({} and {}) of a repeated member (batch of {})",
                            a, x, slot, a, b, n
                        ));
                    }
                }
                current = next;
                shapes.push("reprobe-twins".into());
            },
            Step::AttackTwins { other, coord, delta } => {
                let (a, b) = match twin {
                    Some(t) if n >= 3 => t,
                    _ => continue,
                };
                let mut q = pick(*other, n);
                while q == a || q == b {
                    q = (q + 1) % n;
                }
                let k = pick(*coord, spec.ext);
                let dq = Scalar::from((*delta).max(1));
                // the same offset on both copies, chosen with the factors observed on a previous run in which the two copies
                // were byte-identical as well (shared marker): sum = w_a + w_b
                let seen = weights_grouped(&ms, &current, action, Some((a, b)))?;
                if seen[a] == Scalar::ZERO {
                    if !judge_factors {
                        continue;
                    }
                    return Err(format!("the factors of the two copies ({}, {}) of a repeated member sum to zero", a, b));
                }
                let w_ab = probe_factor(&ms, &current, action, &[a, b], k)?;
                let w_q = probe_factor(&ms, &current, action, &[q], k)?;
                if w_ab == Scalar::ZERO {
                    if !judge_factors {
                        continue;
                    }
                    return Err(format!("a unit shift of d1[{}] in both copies ({}, {}) of a repeated member does not enter the batch equation", k, a, b));
                }
                let dps = [-(w_q * dq) * w_ab.invert(), -(dq * Scalar::from(2u8).invert())];
                let mk = |x: usize, dd: Scalar, cur: &RangeProof<FP>| {
                    let mem = Member::<F> {
                        st: ms[x].st.clone(),
                        proof: cur.clone(),
                        ctx: ms[x].ctx.clone(),
                        valid: true,
                        mask: None,
                        m: ms[x].m,
                        cap: ms[x].cap,
                        altered: false,
                    };
                    edit(&mem, |pf| add(&mut pf.d1[k], dd))
                };
                for (guess, dp) in dps.into_iter().enumerate() {
                    let mut next = current.clone();
                    next[a] = mk(a, dp, &current[a])?;
                    next[b] = mk(b, dp, &current[b])?;
                    next[q] = mk(q, dq, &current[q])?;
                    let (ok, _) = run(&ms, &next, action)?;
                    if ok {
                        if let Some(why) = accepted_counts(&ms, &next, &[a, b, q])? {
                            return Err(format!(
                                "ADAPTIVE CANCELLATION ACCEPTED: the same offset on d1[{}] of both copies ({}, {}) of a repeated member, compensated on member {} ({}), verifies as a batch of {}{}",
                                k, a, b, q, if guess == 0 { "factors as observed on earlier runs" } else { "assuming equal factors" }, n, why
                            ));
                        }
                    }
                }
                shapes.push("attack-twins".into());
                log.nontrivial(&(n, a, q, k, shapes.clone(), spec.ext, bits));
            },
        }
    }
    log.extra_evals += spec.script.len() as u64;
    log.label("engine=F");
    log.label(format!("weights:batch={}", n));
    log.label(format!("weights:repeated-members={}", spec.repeats.len()));
    log.label(format!("weights:script={}", shapes.join(">")));
    log.label(format!("bits={}", bits));
    log.label(format!("ext={}", spec.ext));
    log.sample(json!({"batch": n, "bits": bits, "ext": spec.ext, "script": spec.script, "mode": if spec.mode { "VerifyOnly" } else { "RecoverAndVerify" }}));
    let _ = guarded(|| ());
    let _ = R::NAME;
    Ok(())
}

// ---------------------------------------------------------------------------------------------------------------------
// the same two oracles BEYOND THE CHUNK SIZE: factors of members at positions >= 256 (>= 512)

#[derive(Clone, Debug, Serialize, Deserialize)]
pub struct LongFactorSpec {
    pub ext: usize,
    pub pool: Vec<PoolMember>,
    /// batch length
    pub k: u16,
    pub order: u64,
    /// the probed member is `i_off` positions before the end (so always in the last chunk); the second one is either in the same
    /// chunk (`j_same_chunk`) or anywhere
    pub i_off: u8,
    pub j_pos: u16,
    pub j_same_chunk: bool,
    pub slot: Slot,
    pub coord: u16,
    pub delta: u64,
    pub mode: bool,
}

pub fn long_factor_strategy() -> impl Strategy<Value = LongFactorSpec> {
    (
        1usize..=3,
        prop::collection::vec(pool_member_valid(), 2..=3),
        prop_oneof![3 => 258u16..=262, 1 => 514u16..=516],
        any::<u64>(),
        any::<u8>(),
        any::<u16>(),
        any::<bool>(),
        slot_strategy(),
        any::<u16>(),
        prop_oneof![Just(1u64), any::<u64>()],
        any::<bool>(),
    )
        .prop_map(|(ext, pool, k, order, i_off, j_pos, j_same_chunk, slot, coord, delta, mode)| LongFactorSpec {
            ext,
            pool,
            k,
            order,
            i_off,
            j_pos,
            j_same_chunk,
            slot,
            coord,
            delta,
            mode,
        })
}

/// factors of the members from position `from` on (markers only there: a marked member makes its chunk fail, and the verifier
/// stops at the first failing chunk, so the earlier chunks have to stay honest for the last one to be evaluated at all)
fn weights_tail(ms: &[Member<F>], proofs: &[RangeProof<FP>], action: VerifyAction, from: usize) -> Result<Vec<Scalar>, String> {
    let marked: Vec<RangeProof<FP>> = ms
        .iter()
        .zip(proofs.iter())
        .enumerate()
        .map(|(i, (m, p))| {
            if i < from {
                return Ok(p.clone());
            }
            edit(&copy_of(m, p), |pf| {
                let b = <FP as Grp>::dec(&pf.b).expect("B decodes");
                pf.b = b.add(&FP::basis(MARK + i as u128)).enc();
            })
        })
        .collect::<Result<_, String>>()?;
    let (_, res) = run(ms, &marked, action)?;
    Ok((0..ms.len()).map(|i| if i < from { Scalar::ZERO } else { -res.coef(MARK + i as u128) }).collect())
}

fn copy_of(m: &Member<F>, proof: &RangeProof<FP>) -> Member<F> {
    Member::<F> {
        st: m.st.clone(),
        proof: proof.clone(),
        ctx: m.ctx.clone(),
        valid: true,
        mask: None,
        m: m.m,
        cap: m.cap,
        altered: false,
    }
}

pub fn long_factor_oracle(_ctx: &RunCtx, spec: &LongFactorSpec, log: &mut CaseLog) -> Result<(), String> {
    F::reset_case();
    let bits = 2usize;
    let pool: Vec<Member<F>> = spec
        .pool
        .iter()
        .map(|pm| build_member::<F>(bits, spec.ext, pm, 8))
        .collect::<Result<_, _>>()?;
    let k = spec.k as usize;
    let ms: Vec<Member<F>> = (0..k)
        .map(|pos| {
            let src = &pool[(crate::gen::mix(spec.order, pos as u64) as usize) % pool.len()];
            copy_of(src, &src.proof)
        })
        .collect();
    let action = if spec.mode { VerifyAction::VerifyOnly } else { VerifyAction::RecoverAndVerify };
    let honest: Vec<RangeProof<FP>> = ms.iter().map(|m| m.proof.clone()).collect();
    let (ok, _) = run(&ms, &honest, action)?;
    if !ok {
        return Err(format!("{} the all-honest batch of {} is rejected (C01's / C03's subject)", SKIP, k));
    }
    let chunk_start = (k - 1) / 256 * 256;
    let i = k - 1 - (spec.i_off as usize % (k - chunk_start));
    // both members sit in the last chunk (each chunk has its own final equation)
    let _ = spec.j_same_chunk;
    if k - chunk_start < 2 {
        return Ok(());
    }
    let mut j = chunk_start + spec.j_pos as usize % (k - chunk_start);
    if j == i {
        j = if i > chunk_start { i - 1 } else { i + 1 };
    }
    // (1) every factor nonzero; (2) the ratio w_i / w_x moves when a response scalar of member i moves
    let before = weights_tail(&ms, &honest, action, chunk_start)?;
    if let Some(x) = before.iter().skip(chunk_start).position(|w| *w == Scalar::ZERO) {
        return Err(format!("the factor of member {} of {} in the batch equation is zero", chunk_start + x, k));
    }
    let changed = edit(&copy_of(&ms[i], &honest[i]), |pf| match &spec.slot {
        Slot::R1 => add(&mut pf.r1, Scalar::ONE),
        Slot::S1 => add(&mut pf.s1, Scalar::ONE),
        Slot::D1(c) => {
            let c = pick(*c, pf.d1.len());
            add(&mut pf.d1[c], Scalar::ONE)
        },
        Slot::D1Pair(a, b) => bump_pair(pf, *a, *b),
    })?;
    let mut next = honest.clone();
    next[i] = changed;
    let after = weights_tail(&ms, &next, action, chunk_start)?;
    for x in [chunk_start, j, k - 1] {
        if x == i || x >= k {
            continue;
        }
        if after[x] == Scalar::ZERO || after[i] == Scalar::ZERO {
            return Err(format!("a factor became zero after changing a response scalar of member {} of {}", i, k));
        }
        if before[i] * after[x] == after[i] * before[x] {
            return Err(format!(
                "the ratio of the factors of members {} and {} did not change when response scalar {:?} of member {} changed (batch of {})",
                i, x, spec.slot, i, k
            ));
        }
    }
    // (3) offsets between members i and j from factors observed on earlier runs of this batch, or assumed equal
    let c = pick(spec.coord, spec.ext);
    let wi = probe_factor(&ms, &honest, action, &[i], c)?;
    let wj = probe_factor(&ms, &honest, action, &[j], c)?;
    if wi == Scalar::ZERO || wj == Scalar::ZERO {
        return Err(format!("a unit shift of d1[{}] of member {} or {} of {} does not enter the batch equation at all", c, i, j, k));
    }
    let d = Scalar::from(spec.delta.max(1));
    for (guess, ratio) in [("w_i/w_j as observed on earlier runs", wi * wj.invert()), ("1 (equal and opposite offsets)", Scalar::ONE)] {
        let mut atk = honest.clone();
        atk[i] = edit(&copy_of(&ms[i], &honest[i]), |pf| add(&mut pf.d1[c], d))?;
        atk[j] = edit(&copy_of(&ms[j], &honest[j]), |pf| add(&mut pf.d1[c], -(d * ratio)))?;
        let (ok, _) = run(&ms, &atk, action)?;
        if ok {
            return Err(format!(
                "ADAPTIVE CANCELLATION ACCEPTED: offsets +d on d1[{}] of member {} and -d*ratio on member {}, ratio = {}, verify as a batch of {}",
                c, i, j, guess, k
            ));
        }
    }
    log.extra_evals += 8;
    log.label("engine=F");
    log.label(format!("long-factors:k={}", if k > 512 { ">512" } else { "257..262" }));
    log.label(format!("ext={}", spec.ext));
    log.nontrivial(&(k, i, j, c, spec.ext, spec.order));
    log.sample(json!({"kind": "factors beyond the chunk size", "batch": k, "i": i, "j": j, "ext": spec.ext, "mode": if spec.mode { "VerifyOnly" } else { "RecoverAndVerify" }}));
    Ok(())
}

pub fn def() -> PropertyDef {
    PropertyDef {
        id: "C08",
        level: "exploration",
        rule: "A case is a history: a batch of 2-6 valid proofs over the free module (2-8 bits, degrees 1-6, mixed aggregation / capacity / seeds) \
               and an adaptive script of 1-4 steps. The factor by which each proof's equation enters the batch is read from the verifier's final \
               multiscalar result through a marker planted in each B. Steps: 'reprobe' - add 1 to r1, s1 or d1[k] of one member and read the \
               factors again; 'attack' - add +d to d1[k] of member i and -d*ratio to d1[k] of member j (also: the same offset on both copies of a repeated member, compensated on a third), where ratio is first w_i/w_j with w the factor with which a unit shift of d1[k] entered the final equation on EARLIER RUNS of this very batch (no marker, so the transcripts are those of the batch submitted), then 1 (equal and opposite). Oracle: every factor is nonzero; after a reprobe the ratio w_i/w_x changed for every other \
               member x; every attack is rejected and (from the honest state) does not cancel on g_k. Second generator (engine F): batches of 258-262 / 514-516 small proofs, both members in the LAST chunk (markers only there: the verifier stops at the first failing chunk) - same three oracles (nonzero, ratio moves, offsets rejected). Third generator (R and F): naive \
               equal-and-opposite shifts of d1[k] in two or three members are rejected. Non-trivial = an attack step that uses factors observed \
               earlier in the same history; distinct by (batch size, i, j, k, script shape, degree, bits)."
            .into(),
        assumptions: vec![
            "factors are observable only over engine F (exact coefficient read-out); Ristretto contributes the naive cancellation check".into(),
            "a ratio can coincide by chance with probability 2^-252".into(),
        ],
        exhaustive: false,
        subs: vec![
            sub("F/adaptive-histories", no_fixed, (12_000, 150_000), |_: &RunCtx, _: Option<&()>| hist_strategy(), oracle),
            sub("F/factors-beyond-the-chunk-size", no_fixed, (160, 2500), |_: &RunCtx, _: Option<&()>| long_factor_strategy(), long_factor_oracle),
            cancel_sub::<F>((5000, 50_000)),
            cancel_sub::<R>((600, 5000)),
        ],
    }
}
