//! C13 Every blinding nonce in a proof is fresh and unpredictable (read off proof points over the free module).
use curve25519_dalek::scalar::Scalar;
use proptest::prelude::*;
use serde::{Deserialize, Serialize};
use serde_json::json;
use tari_bulletproofs_plus::traits::Decompressable;

use crate::{
    eng::{Engine, RngSpec, F},
    fp::{g_id, CFP, FP, H_ID},
    gen::{cfg_strategy, lattice, rng_strategy, triple_strategy, Cfg, Triple, TripleSpec},
    refimpl::{ref_nonce, vec_gens, Proof},
    runner::{guarded, setup, sub, CaseLog, PropertyDef, RunCtx, Tier, INCONCLUSIVE},
    tapx::{challenge_scalar, challenges, tapped_prover},
};

/// The nonces of one proof, read as coordinates of its points
#[derive(Clone, Debug)]
pub struct Nonces {
    /// (name, value): alpha[k], dL[j][k], dR[j][k], d[k], eta[k]
    pub blinding: Vec<(String, Scalar)>,
    pub r: Scalar,
    pub s: Scalar,
}
impl Nonces {
    pub fn all(&self) -> Vec<(String, Scalar)> {
        let mut v = self.blinding.clone();
        v.push(("r".into(), self.r));
        v.push(("s".into(), self.s));
        v
    }
}

/// `g_ids`: the distinct basis ids of the blinding generators (degenerate parameter sets may have fewer than `ext`).
/// `read_h_of_a`: also read A's coordinate on h (used when a blinding generator coincides with h).
pub fn extract(bytes: &[u8], chal: &[Vec<u8>], g_ids: &[u128], bits: usize, a_extra: Option<u128>) -> Result<Nonces, String> {
    let pf = Proof::parse_layout(bytes).map_err(crate::runner::skip_err)?;
    let dec = |b: &[u8; 32]| CFP(*b).decompress().ok_or_else(|| format!("{} proof point not decodable", INCONCLUSIVE));
    let a = dec(&pf.a)?;
    let a1 = dec(&pf.a1)?;
    let b = dec(&pf.b)?;
    let rounds = pf.l.len();
    if chal.len() != 3 + rounds {
        return Err(format!("{} {} challenges for {} rounds", INCONCLUSIVE, chal.len(), rounds));
    }
    let y = challenge_scalar(&chal[0]);
    let es: Vec<Scalar> = chal[2..2 + rounds].iter().map(|c| challenge_scalar(c)).collect();
    let mut blinding = vec![];
    for (k, id) in g_ids.iter().enumerate() {
        blinding.push((format!("alpha[{}]", k), a.coef(*id)));
    }
    if let Some(id) = a_extra {
        blinding.push(("alpha[h]".into(), a.coef(id)));
    }
    for j in 0..rounds {
        let l = dec(&pf.l[j])?;
        let r = dec(&pf.r[j])?;
        for (k, id) in g_ids.iter().enumerate() {
            blinding.push((format!("dL[{}][{}]", j, k), l.coef(*id)));
            blinding.push((format!("dR[{}][{}]", j, k), r.coef(*id)));
        }
    }
    for (k, id) in g_ids.iter().enumerate() {
        blinding.push((format!("d[{}]", k), a1.coef(*id)));
        blinding.push((format!("eta[{}]", k), b.coef(*id)));
    }
    let g0 = vec_gens::<FP>(b'G', 0, bits)[0].basis_id().unwrap();
    let h0 = vec_gens::<FP>(b'H', 0, bits)[0].basis_id().unwrap();
    let pe: Scalar = es.iter().product();
    let r = a1.coef(g0) * pe;
    let s = a1.coef(h0) * pe.invert();
    // self-check of the read-out (only meaningful when no blinding generator coincides with h)
    if a_extra.is_none() && r * y * s != b.coef(H_ID) {
        return Err(format!("{} nonce read-out self-check r*y*s == coef(B, h) failed", INCONCLUSIVE));
    }
    Ok(Nonces { blinding, r, s })
}

#[derive(Clone, Debug, Serialize, Deserialize)]
pub struct FreshSpec {
    pub base: TripleSpec,
    pub rng2: RngSpec,
}

pub fn oracle(_ctx: &RunCtx, spec: &FreshSpec, log: &mut CaseLog) -> Result<(), String> {
    F::reset_case();
    let t = Triple::<F>::build(&spec.base)?;
    let cfg = t.cfg;
    let g_ids: Vec<u128> = (0..cfg.ext).map(g_id).collect();
    let run = |rng: RngSpec| -> Result<(Vec<u8>, Nonces), String> {
        let (p, ev) = tapped_prover(|| guarded(|| F::prove(&mut t.transcript(), &t.st, &t.w, &mut rng.make())));
        let p = setup(p, "the prover refused or panicked on a valid witness (C01's subject)")?;
        let bytes = p.to_bytes();
        let n = extract(&bytes, &challenges(&ev), &g_ids, cfg.bits, None)?;
        Ok((bytes, n))
    };
    let (_, n1) = run(spec.base.rng)?;
    // "different randomness" = the two streams differ in the very first 32-byte draw the prover makes
    let same_stream = first_draw(&spec.rng2) == first_draw(&spec.base.rng);
    let (_, n2) = run(spec.rng2)?;
    for (which, n) in [(1, &n1), (2, &n2)] {
        let all = n.all();
        for (name, v) in &all {
            if *v == Scalar::ZERO {
                return Err(format!("nonce {} is zero (run {})", name, which));
            }
        }
        for i in 0..all.len() {
            for j in i + 1..all.len() {
                if all[i].1 == all[j].1 {
                    return Err(format!("nonces {} and {} coincide within one proof (run {})", all[i].0, all[j].0, which));
                }
            }
        }
    }
    match t.seed {
        None => {
            if !same_stream {
                let a1 = n1.all();
                let a2 = n2.all();
                for (na, va) in &a1 {
                    for (nb, vb) in &a2 {
                        if va == vb {
                            return Err(format!(
                                "without a seed, nonce {} of run 1 equals nonce {} of run 2 although the RNG streams differ ({:?} vs {:?})",
                                na, nb, spec.base.rng, spec.rng2
                            ));
                        }
                    }
                }
            }
        },
        Some(seed) => {
            // the seed-derived ones are exactly the documented function of the seed
            for n in [&n1, &n2] {
                for (name, v) in &n.blinding {
                    let (label, j, k) = parse_name(name);
                    let want = ref_nonce(&seed, label, j, Some(k));
                    if *v != want {
                        return Err(format!("seed-derived nonce {} is not the documented function of the seed", name));
                    }
                }
            }
            if !same_stream && (n1.r == n2.r || n1.s == n2.s || n1.r == n2.s || n1.s == n2.r) {
                return Err("with a seed, a final masking scalar (r / s) repeats between two proofs made with different randomness".into());
            }
        },
    }
    // a seed attached BY HAND to an aggregated statement (the constructor refuses it, the public field does not): whatever the
    // prover then emits is a proof like any other - its own nonzero nonce for every message
    if cfg.m >= 2 && spec.base.bulk % 3 == 0 {
        let seed = crate::gen::rand_scalar(&mut crate::gen::chacha(spec.base.bulk ^ 0x5eed_a66));
        let mut st2 = t.st.clone();
        st2.seed_nonce = Some(seed);
        let (p, ev) = tapped_prover(|| guarded(|| F::prove(&mut t.transcript(), &st2, &t.w, &mut spec.base.rng.make())));
        if let Ok(p) = p? {
            let n = extract(&p.to_bytes(), &challenges(&ev), &g_ids, cfg.bits, None)?;
            let all = n.all();
            for (name, v) in &all {
                if *v == Scalar::ZERO {
                    return Err(format!("nonce {} is zero (aggregated statement with a hand-set seed)", name));
                }
            }
            for i in 0..all.len() {
                for j in i + 1..all.len() {
                    if all[i].1 == all[j].1 {
                        return Err(format!(
                            "nonces {} and {} coincide within one proof (aggregated statement of {} commitments with a hand-set seed)",
                            all[i].0, all[j].0, cfg.m
                        ));
                    }
                }
            }
            // (whether the prover derives anything from a seed the constructor would have refused is not laid down; that every
            // message has its own nonzero nonce is)
            log.label("fresh:hand-set-seed-on-aggregate=proved");
        } else {
            log.label("fresh:hand-set-seed-on-aggregate=refused");
        }
        log.extra_evals += 1;
    }
    log.label("engine=F");
    log.label(format!("fresh:seed={}", t.seed.is_some()));
    log.label(format!("fresh:rng={}+{}", spec.base.rng.class(), spec.rng2.class()));
    log.labels(t.classes());
    if cfg.rounds() >= 1 && cfg.ext >= 2 {
        log.nontrivial(&(cfg.bits, cfg.m, cfg.ext, t.seed.is_some(), spec.base.bulk));
    }
    log.sample(json!({"cfg": cfg, "seed": t.seed.is_some(), "rng1": spec.base.rng, "rng2": spec.rng2, "nonces_per_proof": n1.all().len()}));
    Ok(())
}

pub fn first_draw(r: &RngSpec) -> [u8; 32] {
    use rand_core::RngCore;
    let mut b = [0u8; 32];
    r.make().fill_bytes(&mut b);
    b
}

fn parse_name(name: &str) -> (&'static str, Option<u32>, u32) {
    // "alpha[k]", "dL[j][k]", "dR[j][k]", "d[k]", "eta[k]"
    let idx: Vec<u32> = name
        .split(|c| c == '[' || c == ']')
        .filter_map(|s| s.parse::<u32>().ok())
        .collect();
    if name.starts_with("alpha") {
        ("alpha", None, idx[0])
    } else if name.starts_with("dL") {
        ("dL", Some(idx[0]), idx[1])
    } else if name.starts_with("dR") {
        ("dR", Some(idx[0]), idx[1])
    } else if name.starts_with("eta") {
        ("eta", None, idx[0])
    } else {
        ("d", None, idx[0])
    }
}

pub fn def() -> PropertyDef {
    PropertyDef {
        id: "C13",
        level: "exploration",
        rule: "A case is a valid (statement, witness, context) from the C01 generator (with and without seed) proved TWICE over the free module \
               with two generated RNG streams (ChaCha seeds, fault models, or operating-system entropy through the convenience entry RangeProof::prove - two such runs count as different randomness), the tap recording the challenges. The nonces are read as \
               coordinates of the proof points: alpha_k = coef(A, g_k), dL/dR_{j,k} = coef(L_j / R_j, g_k), d_k = coef(A1, g_k), eta_k = \
               coef(B, g_k), r = coef(A1, G_0) prod e_j, s = coef(A1, H_0) / prod e_j (self-check r y s = coef(B, h)). Oracle: all nonzero, \
               pairwise distinct within a proof; without a seed no nonce of run 1 equals any nonce of run 2 when the streams differ; with a seed \
               every seed-derived one equals the independent Blake2b reference and r, s differ between the runs; the same within-proof requirements for an aggregated statement whose seed was set by hand through the public field (if the prover emits a proof for it). Non-trivial = at least one round \
               and degree >= 2 (indices j and k both matter); distinct by (bits, m, degree, seed?, case)."
            .into(),
        assumptions: vec![
            "read-out is exact over engine F; the Ristretto instantiation runs the same generic prover code".into(),
            "a failed read-out self-check is reported as inconclusive (exit 2), not as a violation".into(),
        ],
        exhaustive: false,
        subs: vec![sub(
            "F/two-runs",
            |ctx: &RunCtx| lattice(if ctx.tier == Tier::Quick { 512 } else { 2048 }, 32),
            (30_000, 400_000),
            |ctx: &RunCtx, f: Option<&Cfg>| {
                let cfg = match f {
                    Some(c) => Just(*c).boxed(),
                    None => cfg_strategy(if ctx.tier == Tier::Quick { 512 } else { 2048 }, 32),
                };
                (triple_strategy(cfg), rng_strategy()).prop_map(|(base, rng2)| FreshSpec { base, rng2 })
            },
            oracle,
        )],
    }
}
