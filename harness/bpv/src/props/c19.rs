//! C19 Wire compatibility with the released protocol and a reference implementation.
use curve25519_dalek::{scalar::Scalar, RistrettoPoint};
use proptest::prelude::*;
use serde::{Deserialize, Serialize};
use serde_json::json;
use tari_bulletproofs_plus::{
    commitment_opening::CommitmentOpening,
    range_parameters::RangeParameters,
    range_proof::{RangeProof, VerifyAction},
    range_statement::RangeStatement,
    range_witness::RangeWitness,
    ristretto,
};

use crate::{
    eng::{ext_of, Engine, RngSpec, R},
    gen::{cfg_strategy, chacha, healthy_rng_strategy, lattice, triple_strategy, Cfg, CtxSpec, SeedSpec, SlotSpec, Triple, TripleSpec},
    mutate::PubStatement,
    refimpl::{ref_prove, ref_recover, verify_residual, Cheat, Grp, Proof, RefWitness, Stmt},
    runner::{guarded, setup, sub, CaseLog, PropertyDef, RunCtx, Tier},
    tapx::{layout, tapped},
};

fn hex(b: &[u8]) -> String {
    b.iter().map(|x| format!("{:02x}", x)).collect()
}
fn unhex(s: &str) -> Vec<u8> {
    (0..s.len() / 2).map(|i| u8::from_str_radix(&s[2 * i..2 * i + 2], 16).unwrap()).collect()
}
fn scalar_of(s: &str) -> Scalar {
    let mut b = [0u8; 32];
    b.copy_from_slice(&unhex(s));
    Scalar::from_bytes_mod_order(b)
}

/// One recorded vector: everything explicit, nothing depends on the harness's generators.
#[derive(Clone, Debug, Serialize, Deserialize)]
pub struct Vector {
    pub bits: usize,
    pub m: usize,
    pub cap: usize,
    pub ext: usize,
    pub values: Vec<u64>,
    pub promises: Vec<Option<u64>>,
    pub blindings: Vec<Vec<String>>,
    pub seed: Option<String>,
    pub ctx: CtxSpec,
    pub rng_seed: u64,
    pub commitments: Vec<String>,
    pub proof: String,
    pub mask: Option<Vec<String>>,
    /// (label, length, is_challenge) of every transcript operation of the verifier
    pub layout: Vec<(String, usize, bool)>,
}

#[derive(Clone, Debug, Serialize, Deserialize)]
pub struct VectorFile {
    pub recorded_from: String,
    pub vectors: Vec<Vector>,
}

pub fn gen_vectors(recorded_from: &str) -> VectorFile {
    let mut out = vec![];
    let lat = lattice(512, 8);
    let mut n = 0u64;
    for cfg0 in lat.iter() {
        for variant in 0..2u64 {
            n += 1;
            let ext = 1 + ((cfg0.ext as u64 + 3 * variant) % 6) as usize;
            let cfg = Cfg { ext, ..*cfg0 };
            let spec = TripleSpec {
                cfg,
                slots: vec![
                    SlotSpec {
                        vclass: (n % 7) as u8,
                        vraw: n.wrapping_mul(0x1234_5678_9abc_def1),
                        pclass: ((n / 2) % 6) as u8,
                        praw: n.wrapping_mul(0xfeed_beef),
                        bclass: vec![0, 0, (n % 4) as u8, 0, 0, 0],
                    },
                    SlotSpec {
                        vclass: 5,
                        vraw: n ^ 0x55,
                        pclass: 4,
                        praw: 0,
                        bclass: vec![0; 6],
                    },
                ],
                ctx: CtxSpec {
                    label: (n % 6) as u8,
                    msgs: if n % 3 == 0 { vec![(0, n.to_le_bytes().to_vec())] } else { vec![] },
                },
                rng: RngSpec::ChaCha(1000 + n),
                seed: if cfg.m == 1 && variant == 0 { SeedSpec::Uniform(n) } else if cfg.m == 1 && n % 5 == 0 { SeedSpec::One } else { SeedSpec::None },
                bulk: n.wrapping_mul(77),
            };
            let t = Triple::<R>::build(&spec).expect("build");
            let proof = t.prove().expect("prove");
            let (res, ev) = tapped(|| R::verify(&mut [t.transcript()], &[t.st.clone()], &[proof.clone()], VerifyAction::RecoverAndVerify));
            let masks = res.expect("verify");
            out.push(Vector {
                bits: cfg.bits,
                m: cfg.m,
                cap: cfg.cap,
                ext: cfg.ext,
                values: t.values.clone(),
                promises: t.promises.clone(),
                blindings: t.blindings.iter().map(|r| r.iter().map(|s| hex(s.as_bytes())).collect()).collect(),
                seed: t.seed.map(|s| hex(s.as_bytes())),
                ctx: spec.ctx.clone(),
                rng_seed: 1000 + n,
                commitments: t.commitments.iter().map(|c| hex(&c.enc())).collect(),
                proof: hex(&proof.to_bytes()),
                mask: masks[0].as_ref().map(|m| m.blindings().unwrap().iter().map(|s| hex(s.as_bytes())).collect()),
                layout: layout(&ev).into_iter().filter(|(l, _, _)| l != "proof").collect(),
            });
        }
    }
    // vectors containing identity commitments (value 0, all-zero blinding): zero padding of an aggregate, and a single one
    for (i, (bits, m, cap, ext, zero_at)) in [(8usize, 4usize, 4usize, 1usize, 3usize), (64, 2, 2, 2, 1), (32, 1, 1, 2, 0), (4, 4, 8, 3, 0), (16, 1, 2, 1, 0), (2, 2, 2, 6, 1)].iter().enumerate() {
        let params = RangeParameters::init(*bits, *cap, ristretto::create_pedersen_gens_with_extension_degree(ext_of(*ext))).expect("params");
        let mut rng = chacha(9000 + i as u64);
        let mut values = vec![];
        let mut blind: Vec<Vec<Scalar>> = vec![];
        for j in 0..*m {
            if j == *zero_at {
                values.push(0u64);
                blind.push(vec![Scalar::ZERO; *ext]);
            } else {
                values.push(crate::gen::mix(77, (i * 10 + j) as u64) & crate::gen::mask_of(*bits));
                blind.push((0..*ext).map(|_| crate::gen::rand_scalar(&mut rng)).collect());
            }
        }
        let commitments: Vec<RistrettoPoint> = values.iter().zip(blind.iter()).map(|(v, r)| params.pc_gens().commit(&Scalar::from(*v), r).unwrap()).collect();
        let promises: Vec<Option<u64>> = values.iter().map(|v| if *v > 2 { Some(v / 2) } else { None }).collect();
        let seed = if *m == 1 { Some(crate::gen::rand_scalar(&mut rng)) } else { None };
        let st = RangeStatement::init(params, commitments.clone(), promises.clone(), seed).expect("statement");
        let w = RangeWitness::init(values.iter().zip(blind.iter()).map(|(v, r)| CommitmentOpening::new(*v, r.clone())).collect()).expect("witness");
        let ctx = CtxSpec { label: (i % 6) as u8, msgs: vec![] };
        let rng_seed = 5000 + i as u64;
        let proof = RangeProof::prove_with_rng(&mut ctx.transcript(), &st, &w, &mut RngSpec::ChaCha(rng_seed).make()).expect("prove");
        let (res, ev) = tapped(|| RangeProof::verify_batch(&mut [ctx.transcript()], &[st.clone()], &[proof.clone()], VerifyAction::RecoverAndVerify));
        let masks = res.expect("verify");
        out.push(Vector {
            bits: *bits,
            m: *m,
            cap: *cap,
            ext: *ext,
            values,
            promises,
            blindings: blind.iter().map(|r| r.iter().map(|s| hex(s.as_bytes())).collect()).collect(),
            seed: seed.map(|s| hex(s.as_bytes())),
            ctx,
            rng_seed,
            commitments: commitments.iter().map(|c| hex(&c.enc())).collect(),
            proof: hex(&proof.to_bytes()),
            mask: masks[0].as_ref().map(|m| m.blindings().unwrap().iter().map(|s| hex(s.as_bytes())).collect()),
            layout: layout(&ev).into_iter().filter(|(l, _, _)| l != "proof").collect(),
        });
    }
    VectorFile {
        recorded_from: recorded_from.to_string(),
        vectors: out,
    }
}

pub fn load_vectors(ctx: &RunCtx) -> Vec<(usize, Vector)> {
    let p = ctx.root.join("vectors/v040.json");
    let text = std::fs::read_to_string(&p).unwrap_or_else(|e| panic!("cannot read {}: {}", p.display(), e));
    let f: VectorFile = serde_json::from_str(&text).expect("vectors file");
    f.vectors.into_iter().enumerate().collect()
}

pub fn vector_oracle(_ctx: &RunCtx, iv: &(usize, Vector), log: &mut CaseLog) -> Result<(), String> {
    let (idx, v) = iv;
    let pc = ristretto::create_pedersen_gens_with_extension_degree(ext_of(v.ext));
    let params = RangeParameters::init(v.bits, v.cap, pc).map_err(crate::runner::skip_err)?;
    let blind: Vec<Vec<Scalar>> = v.blindings.iter().map(|r| r.iter().map(|s| scalar_of(s)).collect()).collect();
    let commitments: Vec<RistrettoPoint> = v
        .values
        .iter()
        .zip(blind.iter())
        .map(|(val, r)| params.pc_gens().commit(&Scalar::from(*val), r).map_err(crate::runner::skip_err))
        .collect::<Result<_, _>>()?;
    for (c, rec) in commitments.iter().zip(v.commitments.iter()) {
        if hex(&c.enc()) != *rec {
            return Err(format!("vector {}: commitment differs from the recorded one (Pedersen generators changed?)", idx));
        }
    }
    let seed = v.seed.as_ref().map(|s| scalar_of(s));
    let st = RangeStatement::init(params, commitments.clone(), v.promises.clone(), seed).map_err(crate::runner::skip_err)?;
    let bytes = unhex(&v.proof);
    let proof = guarded(|| RangeProof::<RistrettoPoint>::from_bytes(&bytes))?;
    // zero-round vectors cannot be decoded (known finding C15): they are re-proved instead
    let rounds = (v.bits * v.m).ilog2();
    let w = RangeWitness::init(
        v.values
            .iter()
            .zip(blind.iter())
            .map(|(val, r)| CommitmentOpening::new(*val, r.clone()))
            .collect(),
    )
    .map_err(crate::runner::skip_err)?;
    // the prover reproduces the recorded bytes under the recorded RNG stream
    // (a prover that refuses this valid witness is C01's subject: then only the recorded proof itself is judged below)
    let again = guarded(|| RangeProof::prove_with_rng(&mut v.ctx.transcript(), &st, &w, &mut RngSpec::ChaCha(v.rng_seed).make())).ok().and_then(|r| r.ok());
    if again.is_none() {
        log.label("vector:prover-refused(not judged here)");
    }
    // ... as far as the PROTOCOL fixes them: with a recovery seed A and every L_j, R_j are functions of statement, witness,
    // transcript and seed (their nonces are the seed-derived ones of 0.4.0); A1, B, r1, s1 also depend on the two scalars the
    // prover draws from its hedged RNG, and how it draws them is not part of the wire protocol (C13 / C14 judge that)
    if let (Some(again), true) = (again.as_ref(), seed.is_some()) {
        let (a, b) = (
            Proof::parse_layout(&again.to_bytes()).map_err(crate::runner::skip_err)?,
            Proof::parse_layout(&bytes).map_err(crate::runner::skip_err)?,
        );
        if a.ext != b.ext || a.a != b.a || a.l != b.l || a.r != b.r {
            return Err(format!(
                "vector {} (bits {}, m {}, cap {}, degree {}): with the recorded seed the prover no longer reproduces A / L / R of the recorded 0.4.0 proof",
                idx, v.bits, v.m, v.cap, v.ext
            ));
        }
    }
    if let Some(again) = again.as_ref() {
        if again.to_bytes().len() != bytes.len() {
            return Err(format!("vector {}: the prover's proof has {} bytes, the recorded one {}", idx, again.to_bytes().len(), bytes.len()));
        }
    }
    let proof = match proof {
        Ok(p) => p,
        Err(e) => {
            if rounds == 0 {
                log.excluded += 1;
                match again {
                    Some(p) => p,
                    None => return Err(format!("{} zero-round vector {} cannot be decoded (known finding) and the prover refuses to re-prove it (C01's subject)", crate::runner::SKIP, idx)),
                }
            } else {
                return Err(format!("vector {}: recorded proof no longer decodes: {:?}", idx, e));
            }
        },
    };
    let (res, ev) = tapped(|| guarded(|| RangeProof::verify_batch(&mut [v.ctx.transcript()], &[st.clone()], &[proof.clone()], VerifyAction::RecoverAndVerify)));
    let masks = res?.map_err(|e| {
        format!(
            "vector {} (bits {}, m {}, cap {}, degree {}): recorded 0.4.0 proof no longer verifies: {:?}",
            idx, v.bits, v.m, v.cap, v.ext, e
        )
    })?;
    let got: Option<Vec<String>> = masks[0].as_ref().map(|m| m.blindings().unwrap().iter().map(|s| hex(s.as_bytes())).collect());
    if got != v.mask {
        return Err(format!("vector {}: recorded mask was not recovered", idx));
    }
    // the PROTOCOL part of the layout: from the protocol's domain separator and `H` to the last challenge. What the verifier does
    // with its own weight transcript and with r1, s1, d1 afterwards is its private matter (C08 judges that) and may change
    // without touching the wire protocol.
    fn protocol_part(l: &[(String, usize, bool)]) -> Vec<(String, usize, bool)> {
        let first_h = l.iter().position(|(x, _, c)| x == "H" && !*c);
        // the protocol's last challenge is the one drawn after `B` was absorbed (a verifier may draw further challenges from
        // transcripts of its own afterwards)
        let b_at = first_h.and_then(|h| l[h..].iter().position(|(x, _, c)| x == "B" && !*c).map(|i| h + i));
        let last_ch = b_at.and_then(|b| l[b..].iter().position(|(_, _, c)| *c).map(|i| b + i));
        match (first_h, last_ch) {
            (Some(a), Some(b)) if a <= b => {
                let a = if a > 0 && l[a - 1].0 == "dom-sep" { a - 1 } else { a };
                l[a..=b].to_vec()
            },
            _ => l.to_vec(),
        }
    }
    let lay = protocol_part(&layout(&ev));
    let recorded = protocol_part(&v.layout);
    if lay != recorded {
        let pos = lay.iter().zip(recorded.iter()).position(|(a, b)| a != b).unwrap_or(lay.len().min(recorded.len()));
        return Err(format!(
            "vector {}: transcript layout differs from the recorded one at operation {}: {:?} vs recorded {:?}",
            idx,
            pos,
            lay.get(pos),
            recorded.get(pos)
        ));
    }
    // the independent reference accepts the recorded bytes and recovers the recorded mask (validates the model)
    let (h, g) = <RistrettoPoint as Grp>::pedersen(v.ext);
    let rst = Stmt {
        bits: v.bits,
        h,
        g,
        commitments,
        promises: v.promises.clone(),
    };
    let pf = Proof::parse_layout(&bytes).map_err(crate::runner::skip_err)?;
    match verify_residual(&mut v.ctx.transcript(), &rst, &pf) {
        Ok(r) if r == <RistrettoPoint as Grp>::zero() => {},
        other => return Err(format!("vector {}: the reference verifier does not accept the recorded proof ({:?})", idx, other.err())),
    }
    if let Some(sd) = seed {
        let rr = ref_recover(&mut v.ctx.transcript(), &rst, &pf, &sd).map_err(crate::runner::skip_err)?;
        if rr != blind[0] {
            return Err(format!("vector {}: the reference recovery does not give the recorded mask", idx));
        }
    }
    log.label("recorded-vector");
    log.label(format!("bits={}", v.bits));
    log.label(format!("m={}", v.m));
    log.label(format!("ext={}", v.ext));
    log.label(format!("seed={}", v.seed.is_some()));
    log.nontrivial(&(idx, v.bits, v.m, v.cap, v.ext));
    log.sample(json!({"kind": "recorded 0.4.0 vector", "index": idx, "bits": v.bits, "m": v.m, "cap": v.cap, "ext": v.ext, "seed": v.seed.is_some(),
        "proof_len": bytes.len()}));
    Ok(())
}

/// fresh configurations, both directions, byte for byte over Ristretto
pub fn cross_oracle(_ctx: &RunCtx, spec: &TripleSpec, log: &mut CaseLog) -> Result<(), String> {
    let t = Triple::<R>::build(spec)?;
    let cfg = t.cfg;
    let rst = t.ref_stmt();
    // library prover -> reference verifier and reference recovery
    let proof = setup(guarded(|| t.prove()), "the prover refused or panicked on a valid witness (C01's subject)")?;
    let bytes = proof.to_bytes();
    let pf = Proof::parse_layout(&bytes).map_err(crate::runner::skip_err)?;
    match verify_residual(&mut t.transcript(), &rst, &pf) {
        Ok(r) if r == <RistrettoPoint as Grp>::zero() => {},
        other => return Err(format!("the independent verifier does not accept the library's proof ({:?})", other.err())),
    }
    if let Some(sd) = t.seed {
        let rr = ref_recover(&mut t.transcript(), &rst, &pf, &sd).map_err(crate::runner::skip_err)?;
        if rr != t.blindings[0] {
            return Err("the independent recovery does not return the blinding vector from a library proof".into());
        }
    }
    // reference prover -> library verifier and recoverer
    if cfg.nm() > 1 {
        let w = RefWitness {
            values: t.values.clone(),
            blindings: t.blindings.clone(),
        };
        let rp = ref_prove(&mut t.transcript(), &rst, &w, t.seed.as_ref(), &mut chacha(spec.bulk ^ 0xabc), Cheat::Honest, 0);
        let rbytes = rp.encode();
        let lp = guarded(|| RangeProof::<RistrettoPoint>::from_bytes(&rbytes))?.map_err(|e| format!("library decoder refuses the reference prover's proof: {:?}", e))?;
        for act in [VerifyAction::VerifyOnly, VerifyAction::RecoverAndVerify] {
            let masks = guarded(|| R::verify(&mut [t.transcript()], &[t.st.clone()], &[lp.clone()], act))?
                .map_err(|e| format!("library verifier rejects the reference prover's proof in {:?}: {:?}", act, e))?;
            if act == VerifyAction::RecoverAndVerify {
                let got = masks[0].as_ref().map(|m| m.blindings().unwrap());
                let want = t.seed.map(|_| t.blindings[0].clone());
                if got != want {
                    return Err("library recovery does not return the blinding vector from a reference-prover proof".into());
                }
            }
        }
        // with a seed and the same (deterministic) final masks the two provers agree byte for byte except where r, s enter
        let _ = PubStatement::<R>::of(&t);
    } else {
        log.excluded += 1;
    }
    log.label("cross-direction");
    log.labels(t.classes());
    log.nontrivial(&(cfg, t.seed.is_some(), spec.bulk));
    log.sample(json!({"kind": "cross-direction", "cfg": cfg, "seed": t.seed.is_some(), "proof_len": bytes.len()}));
    Ok(())
}

pub fn def() -> PropertyDef {
    PropertyDef {
        id: "C19",
        level: "exploration",
        rule: "(i) Every recorded vector in vectors/v040.json (recorded once from the pinned 0.4.0 commit 6415632 in a scratch worktree: every \
               bit length, aggregation <= 8, capacity m..8m, all six degrees, all promise / value classes, seeds, contexts): the commitments are \
               reproduced, with the recorded seed the library prover reproduces the protocol-determined part of the recorded proof (A, every L_j and R_j; what depends on the two scalars drawn from the hedged RNG is not compared), the recorded bytes decode, \
               verify and yield the recorded mask, the protocol part of the verifier's transcript layout (label, length, order of every absorb / challenge from the protocol's domain separator and H to the last challenge) equals the \
               recorded one, and the independent reference verifier / recovery accept the recorded bytes (which validates the model). (ii) fresh \
               generated configurations over Ristretto in both directions: library proof -> reference verifier accepts, reference recovery \
               returns the blindings; reference-prover proof -> library decodes, verifies and recovers the blindings. Non-trivial = every vector \
               and every cross-direction case; distinct by vector index / configuration."
            .into(),
        assumptions: vec![
            "the vectors were produced by the library itself at the pinned commit; they pin compatibility with that release, not correctness".into(),
            "zero-round vectors cannot be decoded (known finding C15); for them the re-proved object is verified and the byte comparison still applies".into(),
        ],
        exhaustive: false,
        subs: vec![
            sub(
                "R/recorded-vectors",
                load_vectors,
                (0, 0),
                |_: &RunCtx, f: Option<&(usize, Vector)>| Just(f.cloned().unwrap()),
                vector_oracle,
            ),
            sub(
                "R/cross-direction",
                |ctx: &RunCtx| lattice(if ctx.tier == Tier::Quick { 256 } else { 1024 }, 32),
                (2000, 20_000),
                |ctx: &RunCtx, f: Option<&Cfg>| {
                    let cfg = match f {
                        Some(c) => Just(*c).boxed(),
                        None => cfg_strategy(if ctx.tier == Tier::Quick { 256 } else { 1024 }, 32),
                    };
                    (triple_strategy(cfg), healthy_rng_strategy()).prop_map(|(mut t, r)| {
                        t.rng = r;
                        t
                    })
                },
                cross_oracle,
            ),
            // party indices beyond 255 (the recorded vectors stop at 8 parties): one-bit aggregates of 512 commitments
            sub(
                "R/cross-direction-512-parties",
                |_: &RunCtx| vec![Cfg { bits: 1, m: 512, cap: 512, ext: 1 }, Cfg { bits: 1, m: 512, cap: 1024, ext: 2 }],
                (6, 40),
                |_: &RunCtx, f: Option<&Cfg>| {
                    let cfg = match f {
                        Some(c) => Just(*c).boxed(),
                        None => (1usize..=6).prop_map(|ext| Cfg { bits: 1, m: 512, cap: 512, ext }).boxed(),
                    };
                    (triple_strategy(cfg), healthy_rng_strategy()).prop_map(|(mut t, r)| {
                        t.rng = r;
                        t
                    })
                },
                cross_oracle,
            ),
        ],
    }
}
