//! C09 Mask recovery returns the commitment's exact mask, position by position.
use proptest::prelude::*;
use serde::{Deserialize, Serialize};
use serde_json::json;
use tari_bulletproofs_plus::range_proof::VerifyAction;

use crate::{
    eng::{action_name, Engine, F, R},
    gen::{ctx_strategy, rng_strategy, seed_strategy, slot_strategy, some_seed_strategy, SeedSpec, BITS},
    props::c03::{build_member, verify_members, Member, PoolMember},
    runner::{no_fixed, sub, CaseLog, PropertyDef, RunCtx, Sub},
};

#[derive(Clone, Debug, Serialize, Deserialize)]
pub struct RecSpec {
    pub bits_idx: u8,
    pub ext: usize,
    pub members: Vec<PoolMember>,
    pub mode: u8,
}

fn member_strategy() -> impl Strategy<Value = PoolMember> {
    (
        prop_oneof![6 => Just(0u8), 1 => Just(1u8), 1 => Just(2u8)],
        0u8..=2,
        prop::collection::vec(slot_strategy(), 1..=2),
        ctx_strategy(),
        rng_strategy(),
        prop_oneof![3 => some_seed_strategy(), 1 => Just(SeedSpec::None), 1 => seed_strategy()],
        any::<u64>(),
    )
        .prop_map(|(m_log, cap_log, slots, ctx, rng, seed, bulk)| PoolMember {
            m_log,
            cap_log,
            slots,
            ctx,
            rng,
            seed,
            bulk,
            invalid: None,
            twin_of: None,
        })
}

pub fn oracle<E: Engine>(_ctx: &RunCtx, spec: &RecSpec, log: &mut CaseLog) -> Result<(), String> {
    E::reset_case();
    let bits = BITS[spec.bits_idx as usize % BITS.len()];
    let max_nm = if spec.members.len() > 4 { bits.max(64) } else { bits.max(256) };
    let ms: Vec<Member<E>> = spec
        .members
        .iter()
        .map(|pm| build_member::<E>(bits, spec.ext, pm, max_nm))
        .collect::<Result<_, _>>()?;
    let refs: Vec<&Member<E>> = ms.iter().collect();
    let action = [VerifyAction::RecoverAndVerify, VerifyAction::RecoverOnly, VerifyAction::VerifyOnly][spec.mode as usize % 3];
    let masks = verify_members::<E>(&refs, action)?
        .map_err(|e| format!("batch of {} valid members refused in {}: {}", ms.len(), action_name(action), e))?;
    if masks.len() != ms.len() {
        return Err(format!("{} results for {} members", masks.len(), ms.len()));
    }
    let mut kinds = std::collections::BTreeSet::new();
    for (i, (got, m)) in masks.iter().zip(ms.iter()).enumerate() {
        let kind = if m.m > 1 {
            "aggregated"
        } else if m.mask.is_some() {
            "seeded"
        } else {
            "unseeded"
        };
        kinds.insert(kind);
        let want = if action == VerifyAction::VerifyOnly { None } else { m.mask.clone() };
        if *got != want {
            let detail = match (got, &want) {
                (Some(g), Some(w)) => {
                    let wrong: Vec<usize> = (0..w.len()).filter(|k| g.get(*k) != w.get(*k)).collect();
                    format!("components {:?} of {} differ", wrong, w.len())
                },
                (None, Some(_)) => "no mask returned".into(),
                (Some(_), None) => "a mask was returned where none is expected".into(),
                _ => String::new(),
            };
            return Err(format!(
                "result {} of {} ({} member, mode {}, capacity {}) is not the commitment's mask: {}",
                i,
                ms.len(),
                kind,
                action_name(action),
                m.cap,
                detail
            ));
        }
    }
    log.label(format!("engine={}", E::NAME));
    log.label(format!("recover:mode={}", action_name(action)));
    log.label(format!("recover:batch={}", ms.len().min(8)));
    log.label(format!("recover:kinds={}", kinds.iter().cloned().collect::<Vec<_>>().join("+")));
    log.label(format!("bits={}", bits));
    log.label(format!("ext={}", spec.ext));
    for m in &ms {
        log.label(format!("recover:cap/m={}", m.cap / m.m));
    }
    if spec.ext >= 2 || kinds.len() >= 2 {
        log.nontrivial(&(bits, spec.ext, kinds.clone(), spec.mode % 3, ms.len(), spec.members[0].bulk));
    }
    log.sample(json!({"engine": E::NAME, "bits": bits, "ext": spec.ext, "mode": action_name(action),
        "members": ms.iter().map(|m| json!({"m": m.m, "cap": m.cap, "seeded": m.mask.is_some()})).collect::<Vec<_>>()}));
    Ok(())
}

/// long batches of valid members drawn from a small pool: result i must be the mask of member i also beyond 256 members
#[derive(Clone, Debug, Serialize, Deserialize)]
pub struct LongRecSpec {
    pub bits_idx: u8,
    pub ext: usize,
    pub pool: Vec<PoolMember>,
    pub k: u16,
    pub order: u64,
    pub recover_only: bool,
}

pub fn long_oracle<E: Engine>(_ctx: &RunCtx, spec: &LongRecSpec, log: &mut CaseLog) -> Result<(), String> {
    use rand_core::RngCore;
    E::reset_case();
    let bits = BITS[spec.bits_idx as usize % 4];
    let pool: Vec<Member<E>> = spec
        .pool
        .iter()
        .map(|pm| build_member::<E>(bits, spec.ext, pm, bits.max(8)))
        .collect::<Result<_, _>>()?;
    let k = spec.k as usize;
    let mut rng = crate::gen::chacha(spec.order);
    let seq: Vec<&Member<E>> = (0..k).map(|_| &pool[(rng.next_u32() as usize) % pool.len()]).collect();
    let action = if spec.recover_only { VerifyAction::RecoverOnly } else { VerifyAction::RecoverAndVerify };
    let masks = verify_members::<E>(&seq, action)?.map_err(|e| format!("batch of {} valid members refused in {}: {}", k, action_name(action), e))?;
    if masks.len() != k {
        return Err(format!("{} results for {} members", masks.len(), k));
    }
    for (i, (got, m)) in masks.iter().zip(seq.iter()).enumerate() {
        if *got != m.mask {
            return Err(format!(
                "result {} of {} (mode {}) is not the mask of member {} (expected present: {}, got present: {})",
                i,
                k,
                action_name(action),
                i,
                m.mask.is_some(),
                got.is_some()
            ));
        }
    }
    log.label(format!("engine={}", E::NAME));
    log.label(format!("recover-long:k={}", if k > 512 { ">512" } else if k > 256 { "257-512" } else { "<=256" }));
    log.nontrivial(&(k, bits, spec.ext, spec.order, spec.recover_only));
    log.sample(json!({"engine": E::NAME, "kind": "long recovering batch", "k": k, "bits": bits, "ext": spec.ext, "mode": action_name(action)}));
    Ok(())
}

fn long_sub<E: Engine>(cases: (usize, usize)) -> Sub {
    sub(
        &format!("{}/long-batches", E::NAME),
        no_fixed,
        cases,
        |_: &RunCtx, _: Option<&()>| {
            (
                0u8..4,
                1usize..=6,
                prop::collection::vec(member_strategy(), 2..=5),
                prop_oneof![1 => 13u16..=255, 3 => 256u16..=300, 2 => 500u16..=530, 1 => 301u16..=700],
                any::<u64>(),
                any::<bool>(),
            )
                .prop_map(|(bits_idx, ext, pool, k, order, recover_only)| LongRecSpec {
                    bits_idx,
                    ext,
                    pool,
                    k,
                    order,
                    recover_only,
                })
        },
        long_oracle::<E>,
    )
}

fn rec_sub<E: Engine>(cases: (usize, usize)) -> Sub {
    sub(
        &format!("{}/mask-per-position", E::NAME),
        no_fixed,
        cases,
        |_: &RunCtx, _: Option<&()>| {
            (0u8..7, 1usize..=6, prop::collection::vec(member_strategy(), 1..=12), 0u8..3, any::<u16>(), any::<u16>(), any::<u8>(), 0u8..3).prop_map(
                |(bits_idx, ext, mut members, mode, a, b, bit, relate)| {
                    // in a third of the batches one seeded member's seed differs from another member's in a single bit
                    if relate == 0 && members.len() >= 2 {
                        let i = crate::mutate::pick(a, members.len());
                        let mut j = crate::mutate::pick(b, members.len());
                        if j == i {
                            j = (j + 1) % members.len();
                        }
                        if let SeedSpec::Uniform(base) = members[i].seed {
                            members[i].m_log = 0;
                            members[j].m_log = 0;
                            members[j].seed = SeedSpec::Related(base, bit);
                        }
                    }
                    RecSpec { bits_idx, ext, members, mode }
                },
            )
        },
        oracle::<E>,
    )
}

pub fn def() -> PropertyDef {
    PropertyDef {
        id: "C09",
        level: "exploration",
        rule: "A case is a batch of 1-12 valid members sharing bit length (all seven) and degree (1-6): non-aggregated members with a seed \
               (uniform, 0, 1, -1), without a seed, and aggregated members (m = 2, 4), capacities m..4m, per-component blinding classes \
               {uniform, 0, 1, -1} (components distinct), value / promise / context / RNG-model classes, in generated order, verified in \
               RecoverAndVerify, RecoverOnly or VerifyOnly. Oracle: result i == Some(blinding vector of commitment i, all components in order) for \
               seeded non-aggregated members, None for all others and for every member in VerifyOnly. Second generator: batches of 13-700 valid members (sizes just above 256 and 512 stratified) drawn from a pool of 2-5 members in both recovering modes: result i is the mask of member i. Non-trivial = degree >= 2 or a batch with >= 2 kinds of member; distinct by (bits, degree, kinds, mode, batch size, case)."
            .into(),
        assumptions: vec![],
        exhaustive: false,
        subs: vec![
            rec_sub::<F>((12_000, 150_000)),
            rec_sub::<R>((1000, 8000)),
            long_sub::<F>((200, 3000)),
            long_sub::<R>((24, 300)),
        ],
    }
}
