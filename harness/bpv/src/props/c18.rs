//! C18 Proving and verifying are pure, repeatable and thread-safe (histories, seeded thread schedules, cold child processes).
use std::sync::{Arc, Barrier};

use curve25519_dalek::{scalar::Scalar, RistrettoPoint};
use merlin::Transcript;
use proptest::prelude::*;
use serde::{Deserialize, Serialize};
use serde_json::json;
use tari_bulletproofs_plus::{
    commitment_opening::CommitmentOpening,
    range_parameters::RangeParameters,
    range_proof::{RangeProof, VerifyAction},
    range_statement::RangeStatement,
    range_witness::RangeWitness,
    ristretto,
};

use crate::{
    eng::{ext_of, RngSpec},
    gen::{chacha, mask_of, mix, rand_scalar, BITS},
    mutate::{pick, UNDECODABLE},
    refimpl::{vec_gens, Proof},
    runner::{guarded, hash_of, no_fixed, sub, CaseLog, PropertyDef, RunCtx, Tier},
};

#[derive(Clone, Debug, Serialize, Deserialize, PartialEq, Eq, Hash)]
pub enum Op {
    /// create Pedersen generators of a degree (reads the lazily initialised static tables)
    Gens(u8),
    /// construct fresh parameters (bits index, capacity log, degree)
    Params(u8, u8),
    Prove { case: u16, rng: u64 },
    Verify { case: u16, mode: u8 },
    /// the same triple under ANOTHER transcript context (stand-alone result: an error)
    VerifyOtherContext { case: u16, mode: u8 },
    /// batch [case a, case b] with b's proof altered: 0 => s1 + 1 (fails at the final check), 1 => undecodable A1 (fails while
    /// processing the second member), 2 => unaltered (valid batch)
    Batch { a: u16, b: u16, mode: u8, bad: u8 },
    Codec { case: u16 },
    /// proving with a FAILED external RNG (0: all-zero, 1: constant byte, 2: 8-byte period, 3: counter): still a function of the stream
    ProveFaulty { case: u16, model: u8 },
    /// batch of 3-4 pool cases in which members after the first carry a statement over FOREIGN parameters (kind 0: other h,
    /// 1: other g_0, 2: other bit length, 3: other degree, 4: none): refused - and always with the same error value
    BatchForeign { members: Vec<(u16, u8)>, mode: u8 },
    /// the case's proof with one point (0: A, 1: A1, 2: B) replaced by ANOTHER valid encoding that shares its first `keep` bytes
    /// (refused, of course) - and nothing of it may be remembered when the genuine proof is verified afterwards
    VerifyPrefixTwin { case: u16, which: u8, keep: u8 },
}

#[derive(Clone, Debug, Serialize, Deserialize)]
pub struct PoolCase {
    pub m_log: u8,
    pub seed: bool,
    pub bulk: u64,
}

#[derive(Clone, Debug, Serialize, Deserialize)]
pub struct SchedSpec {
    pub bits_idx: u8,
    pub ext: usize,
    /// all pool cases are built from clones of ONE parameter object of this capacity (log2)
    pub cap_log: u8,
    pub pool: Vec<PoolCase>,
    /// one history per thread
    pub histories: Vec<Vec<Op>>,
    pub delays: u64,
}

fn op_strategy() -> impl Strategy<Value = Op> {
    prop_oneof![
        2 => (1u8..=6).prop_map(Op::Gens),
        4 => (0u8..80).prop_map(|x| if x == 0 { Op::Params(6, 4) } else { Op::Params(x % 4, x % 3) }),
        3 => (any::<u16>(), 0u8..2).prop_map(|(case, mode)| Op::VerifyOtherContext { case, mode }),
        4 => (any::<u16>(), 0u64..4).prop_map(|(case, rng)| Op::Prove { case, rng }),
        4 => (any::<u16>(), 0u8..3).prop_map(|(case, mode)| Op::Verify { case, mode }),
        4 => (any::<u16>(), any::<u16>(), 0u8..3, 0u8..3).prop_map(|(a, b, mode, bad)| Op::Batch { a, b, mode, bad }),
        1 => any::<u16>().prop_map(|case| Op::Codec { case }),
        2 => (any::<u16>(), 0u8..4).prop_map(|(case, model)| Op::ProveFaulty { case, model }),
        3 => (prop::collection::vec((any::<u16>(), 0u8..5), 3..=4), 0u8..3).prop_map(|(members, mode)| Op::BatchForeign { members, mode }),
        3 => (any::<u16>(), 0u8..3, prop_oneof![Just(16u8), Just(8u8), Just(24u8), Just(31u8)]).prop_map(|(case, which, keep)| Op::VerifyPrefixTwin { case, which, keep }),
    ]
}

fn sched_strategy(max_threads: usize) -> impl Strategy<Value = SchedSpec> {
    (
        1u8..=3,
        1usize..=6,
        1u8..=2,
        prop::collection::vec((0u8..=2, any::<bool>(), any::<u64>()).prop_map(|(m_log, seed, bulk)| PoolCase { m_log, seed, bulk }), 2..=5),
        prop::collection::vec(prop::collection::vec(op_strategy(), 5..=24), 1..=max_threads),
        any::<u64>(),
    )
        .prop_map(|(bits_idx, ext, cap_log, pool, histories, delays)| SchedSpec {
            bits_idx,
            ext,
            cap_log,
            pool,
            histories,
            delays,
        })
}

struct Built {
    /// the same commitments and promises over foreign parameters (see Op::BatchForeign)
    foreign: Vec<RangeStatement<RistrettoPoint>>,
    st: RangeStatement<RistrettoPoint>,
    w: RangeWitness,
    proof: RangeProof<RistrettoPoint>,
}

struct World {
    bits: usize,
    ext: usize,
    cases: Vec<Built>,
}

fn build_world(spec: &SchedSpec) -> Result<World, String> {
    let bits = BITS[spec.bits_idx as usize % BITS.len()];
    let cap = 1usize << (spec.cap_log.max(1));
    let shared = RangeParameters::init(bits, cap, ristretto::create_pedersen_gens_with_extension_degree(ext_of(spec.ext))).map_err(crate::runner::skip_err)?;
    let mut cases = vec![];
    for pc in &spec.pool {
        let m = (1usize << pc.m_log).min(cap);
        let mut rng = chacha(pc.bulk);
        let mut cs = vec![];
        let mut os = vec![];
        let mut proms = vec![];
        for j in 0..m {
            let v = mix(pc.bulk, j as u64) & mask_of(bits);
            let r: Vec<Scalar> = (0..spec.ext).map(|_| rand_scalar(&mut rng)).collect();
            cs.push(shared.pc_gens().commit(&Scalar::from(v), &r).map_err(crate::runner::skip_err)?);
            os.push(CommitmentOpening::new(v, r));
            proms.push(if j % 2 == 0 { None } else { Some(v / 2) });
        }
        let seed = if pc.seed && m == 1 { Some(rand_scalar(&mut rng)) } else { None };
        // every statement holds a CLONE of the one shared parameter object
        let mut foreign = vec![];
        for kind in 0..4 {
            let mut pc = ristretto::create_pedersen_gens_with_extension_degree(ext_of(if kind == 3 { spec.ext % 6 + 1 } else { spec.ext }));
            if kind == 0 {
                pc.h_base = pc.h_base + pc.g_base_vec[0];
                pc.h_base_compressed = pc.h_base.compress();
            }
            if kind == 1 {
                pc.g_base_vec[0] = pc.g_base_vec[0] + pc.h_base;
                pc.g_base_compressed_vec[0] = pc.g_base_vec[0].compress();
            }
            let other = RangeParameters::init(if kind == 2 { if bits < 64 { bits * 2 } else { 32 } } else { bits }, cap, pc).map_err(crate::runner::skip_err)?;
            foreign.push(RangeStatement::init(other, cs.clone(), proms.clone(), seed).map_err(crate::runner::skip_err)?);
        }
        let st = RangeStatement::init(shared.clone(), cs, proms, seed).map_err(crate::runner::skip_err)?;
        let w = RangeWitness::init(os).map_err(crate::runner::skip_err)?;
        // All cases share clones of ONE parameter object and are proved one after the other. If the prover fails here, the same
        // call is repeated over a parameter object constructed afresh: failing there too is completeness (C01's subject, case
        // skipped); succeeding there means the outcome depended on what the shared object went through before - this property.
        let first_try = guarded(|| RangeProof::prove_with_rng(&mut Transcript::new(b"c18"), &st, &w, &mut RngSpec::ChaCha(pc.bulk).make()));
        let proof = match first_try {
            Ok(Ok(p)) => p,
            failed => {
                let fresh = RangeParameters::init(bits, cap, ristretto::create_pedersen_gens_with_extension_degree(ext_of(spec.ext))).map_err(crate::runner::skip_err)?;
                let st_fresh = RangeStatement::init(fresh, st.commitments.clone(), st.minimum_value_promises.clone(), seed).map_err(crate::runner::skip_err)?;
                let again = guarded(|| RangeProof::prove_with_rng(&mut Transcript::new(b"c18"), &st_fresh, &w, &mut RngSpec::ChaCha(pc.bulk).make()));
                if let Ok(Ok(_)) = again {
                    return Err(format!(
                        "proving {} commitments fails on a parameter object of capacity {} that earlier calls have used ({}) but succeeds on one constructed afresh: a call observes state left behind by another",
                        m,
                        cap,
                        match failed {
                            Ok(Err(e)) => format!("{:?}", e),
                            Err(p) => p,
                            Ok(Ok(_)) => unreachable!(),
                        }
                    ));
                }
                return Err(format!("{} the prover refused or panicked on a valid witness, also over fresh parameters (C01's subject)", crate::runner::SKIP));
            },
        };
        cases.push(Built { foreign, st, w, proof });
    }
    Ok(World { bits, ext: spec.ext, cases })
}

fn masks_digest(r: &Result<Vec<Option<tari_bulletproofs_plus::extended_mask::ExtendedMask>>, tari_bulletproofs_plus::errors::ProofError>) -> u64 {
    match r {
        Ok(v) => {
            let parts: Vec<Option<Vec<[u8; 32]>>> = v
                .iter()
                .map(|m| m.as_ref().map(|m| m.blindings().unwrap().iter().map(|s| s.to_bytes()).collect()))
                .collect();
            hash_of(&("ok", parts))
        },
        Err(e) => hash_of(&("err", format!("{:?}", e))),
    }
}

/// Execute one op; the result is a digest that must be identical wherever and whenever the op runs.
fn exec(world: &World, op: &Op) -> Result<u64, String> {
    let n = world.cases.len();
    let modes = [VerifyAction::VerifyOnly, VerifyAction::RecoverAndVerify, VerifyAction::RecoverOnly];
    Ok(match op {
        Op::Gens(ext) => {
            let g = guarded(|| ristretto::create_pedersen_gens_with_extension_degree(ext_of(*ext as usize)))?;
            let bytes: Vec<[u8; 32]> = std::iter::once(g.h_base_compressed.to_bytes())
                .chain(g.g_base_compressed_vec.iter().map(|c| c.to_bytes()))
                .chain(g.g_base_vec.iter().map(|p| p.compress().to_bytes()))
                .collect();
            hash_of(&bytes)
        },
        Op::Params(b, c) => {
            let bits = BITS[*b as usize % 7];
            let cap = 1usize << (c % 6);
            let p = guarded(|| RangeParameters::init(bits, cap, ristretto::create_pedersen_gens_with_extension_degree(ext_of(world.ext))))?
                .map_err(crate::runner::skip_err)?;
            let bytes: Vec<[u8; 32]> = p.gi_base_iter().chain(p.hi_base_iter()).map(|x| x.compress().to_bytes()).collect();
            hash_of(&bytes)
        },
        Op::Prove { case, rng } => {
            let c = &world.cases[pick(*case, n)];
            let r = guarded(|| RangeProof::prove_with_rng(&mut Transcript::new(b"c18"), &c.st, &c.w, &mut RngSpec::ChaCha(*rng).make()))?;
            match r {
                Ok(p) => hash_of(&p.to_bytes()),
                Err(e) => hash_of(&format!("{:?}", e)),
            }
        },
        Op::Verify { case, mode } => {
            let c = &world.cases[pick(*case, n)];
            let r = guarded(|| RangeProof::verify_batch(&mut [Transcript::new(b"c18")], &[c.st.clone()], &[c.proof.clone()], modes[*mode as usize % 3]))?;
            masks_digest(&r)
        },
        Op::VerifyOtherContext { case, mode } => {
            let c = &world.cases[pick(*case, n)];
            let r = guarded(|| RangeProof::verify_batch(&mut [Transcript::new(b"c18-other")], &[c.st.clone()], &[c.proof.clone()], modes[*mode as usize % 2]))?;
            masks_digest(&r)
        },
        Op::Batch { a, b, mode, bad } => {
            let ca = &world.cases[pick(*a, n)];
            let cb = &world.cases[pick(*b, n)];
            let pb = match bad {
                2 => cb.proof.clone(),
                k => {
                    let mut pf = Proof::parse_layout(&cb.proof.to_bytes()).map_err(crate::runner::skip_err)?;
                    if *k == 0 {
                        pf.s1 = (Scalar::from_bytes_mod_order(pf.s1) + Scalar::ONE).to_bytes();
                    } else {
                        pf.a1 = UNDECODABLE;
                    }
                    match RangeProof::from_bytes(&pf.encode()) {
                        Ok(p) => p,
                        Err(_) => cb.proof.clone(),
                    }
                },
            };
            let r = guarded(|| {
                RangeProof::verify_batch(
                    &mut [Transcript::new(b"c18"), Transcript::new(b"c18")],
                    &[ca.st.clone(), cb.st.clone()],
                    &[ca.proof.clone(), pb],
                    modes[*mode as usize % 3],
                )
            })?;
            masks_digest(&r)
        },
        Op::ProveFaulty { case, model } => {
            let c = &world.cases[pick(*case, n)];
            let spec = [RngSpec::Zero, RngSpec::Const(0x5a), RngSpec::Period8(0x0102_0304_0506_0708), RngSpec::Counter(7)][*model as usize % 4].clone();
            let r = guarded(|| RangeProof::prove_with_rng(&mut Transcript::new(b"c18"), &c.st, &c.w, &mut spec.make()))?;
            match r {
                Ok(p) => hash_of(&p.to_bytes()),
                Err(e) => hash_of(&format!("{:?}", e)),
            }
        },
        Op::BatchForeign { members, mode } => {
            let mut sts = vec![];
            let mut proofs = vec![];
            for (i, (case, kind)) in members.iter().enumerate() {
                let c = &world.cases[pick(*case, n)];
                sts.push(if i == 0 || *kind >= 4 { c.st.clone() } else { c.foreign[*kind as usize].clone() });
                proofs.push(c.proof.clone());
            }
            let mut ts: Vec<Transcript> = (0..sts.len()).map(|_| Transcript::new(b"c18")).collect();
            let r = guarded(|| RangeProof::verify_batch(&mut ts, &sts, &proofs, modes[*mode as usize % 3]))?;
            masks_digest(&r)
        },
        Op::VerifyPrefixTwin { case, which, keep } => {
            let c = &world.cases[pick(*case, n)];
            let mut pf = Proof::parse_layout(&c.proof.to_bytes()).map_err(crate::runner::skip_err)?;
            let slot: &mut [u8; 32] = match which % 3 {
                0 => &mut pf.a,
                1 => &mut pf.a1,
                _ => &mut pf.b,
            };
            let orig = *slot;
            // search the remaining bytes for another canonical encoding (about one candidate in eight decodes)
            let mut ctr = 1u64;
            loop {
                let mut cand = orig;
                let tail = hash_of(&(orig, ctr)).to_le_bytes();
                for (i, b) in cand.iter_mut().enumerate().skip(*keep as usize) {
                    *b = tail[i % 8] ^ (i as u8).wrapping_mul(ctr as u8 | 1);
                }
                cand[31] &= 0x7f;
                if cand != orig && curve25519_dalek::ristretto::CompressedRistretto(cand).decompress().is_some() {
                    *slot = cand;
                    break;
                }
                ctr += 1;
                if ctr > 4000 {
                    break;
                }
            }
            let twin = match RangeProof::from_bytes(&pf.encode()) {
                Ok(p) => p,
                Err(_) => c.proof.clone(),
            };
            let r = guarded(|| RangeProof::verify_batch(&mut [Transcript::new(b"c18")], &[c.st.clone()], &[twin], VerifyAction::VerifyOnly))?;
            masks_digest(&r)
        },
        Op::Codec { case } => {
            let c = &world.cases[pick(*case, n)];
            let bytes = c.proof.to_bytes();
            let back = guarded(|| RangeProof::<RistrettoPoint>::from_bytes(&bytes))?;
            hash_of(&(bytes.clone(), back.map(|p| p.to_bytes()).map_err(crate::runner::skip_err)))
        },
    })
}

pub fn oracle(_ctx: &RunCtx, spec: &SchedSpec, log: &mut CaseLog) -> Result<(), String> {
    let world = Arc::new(build_world(spec)?);
    let _ = world.bits;
    // baseline: every distinct op executed on this thread; then the whole list once more in reverse order -
    // a result that depends on what ran before shows up as a difference between the two passes
    let mut distinct: Vec<Op> = vec![];
    for h in &spec.histories {
        for op in h {
            if !distinct.contains(op) {
                distinct.push(op.clone());
            }
        }
    }
    // ops whose stand-alone result is an error run first: a later success that "teaches" the process something (a memo of
    // verified proofs, say) then shows as a different result in the second pass
    distinct.sort_by_key(|op| !matches!(op, Op::VerifyOtherContext { .. } | Op::VerifyPrefixTwin { .. }));
    let mut base = std::collections::HashMap::new();
    for op in &distinct {
        base.insert(op.clone(), exec(&world, op).map_err(|e| format!("{} while executing {:?}", e, op))?);
    }
    for op in distinct.iter().rev() {
        let again = exec(&world, op).map_err(|e| format!("{} while executing {:?} (second pass)", e, op))?;
        if again != base[op] {
            return Err(format!(
                "repeating {:?} on the same thread after other calls gives a different result (a call observes state left behind by another)",
                op
            ));
        }
    }
    // concurrent phase: one history per thread, released together, generated spin delays between ops
    let nthreads = spec.histories.len();
    let base = Arc::new(base);
    let mut first_err: Option<String> = None;
    if nthreads >= 1 {
        let barrier = Arc::new(Barrier::new(nthreads));
        let results: Vec<Result<(), String>> = std::thread::scope(|s| {
            let hs: Vec<_> = spec
                .histories
                .iter()
                .enumerate()
                .map(|(t, h)| {
                    let world = world.clone();
                    let base = base.clone();
                    let barrier = barrier.clone();
                    let delays = spec.delays;
                    s.spawn(move || -> Result<(), String> {
                        barrier.wait();
                        for (i, op) in h.iter().enumerate() {
                            let spins = mix(delays, (t * 1000 + i) as u64) % 2000;
                            for _ in 0..spins {
                                std::hint::spin_loop();
                            }
                            let got = exec(&world, op).map_err(|e| format!("{} while executing {:?} on thread {} (position {})", e, op, t, i))?;
                            if got != base[op] {
                                return Err(format!(
                                    "{:?} at position {} of thread {} ({} threads running) gives a result different from the same call executed alone",
                                    op, i, t, nthreads
                                ));
                            }
                        }
                        Ok(())
                    })
                })
                .collect();
            hs.into_iter().map(|h| h.join().unwrap_or_else(|_| Err("PANIC in worker thread".into()))).collect()
        });
        for r in results {
            if let Err(e) = r {
                first_err.get_or_insert(e);
            }
        }
    }
    if let Some(e) = first_err {
        return Err(e);
    }
    let total_ops: usize = spec.histories.iter().map(|h| h.len()).sum();
    log.extra_evals += total_ops as u64;
    log.label("engine=R");
    log.label(format!("sched:threads={}", nthreads));
    log.label(format!("sched:ops={}", if total_ops > 100 { ">100" } else { "<=100" }));
    for h in &spec.histories {
        for op in h {
            log.label(format!("sched:op={}", format!("{:?}", op).split([' ', '(', '{']).next().unwrap()));
        }
    }
    let repeats = total_ops > distinct.len();
    if nthreads >= 2 || repeats {
        log.nontrivial(&(nthreads, distinct.len(), total_ops, spec.delays));
    }
    log.sample(json!({"threads": nthreads, "ops_total": total_ops, "distinct_ops": distinct.len(), "bits": world.bits, "ext": spec.ext,
        "pool": spec.pool.len(), "first_history": spec.histories[0].iter().take(5).map(|o| format!("{:?}", o)).collect::<Vec<_>>()}));
    Ok(())
}

// ---------------------------------------------------------------------------------------------------------------------
// cold start in child processes: racing FIRST use of the lazily initialised static generator tables

#[derive(Clone, Debug, Serialize, Deserialize, PartialEq, Eq, Hash)]
pub struct ColdSpec {
    pub threads: u8,
    /// degree requested first by thread t is order[t % len]
    pub order: Vec<u8>,
    pub bits_idx: u8,
    pub cap_log: u8,
    pub delays: u64,
    /// before the race, the child constructs parameters over ANOTHER point type built on the crate's public traits (the harness's
    /// free module); the Ristretto results must not notice
    #[serde(default)]
    pub other_point_type_first: bool,
}

#[derive(Clone, Debug, Serialize, Deserialize, PartialEq, Eq)]
pub struct ColdOut {
    /// per thread: compressed generators (h, g_1..g_6 as requested), digest of vector generators, proof bytes digest, verify ok
    pub threads: Vec<(Vec<String>, u64, u64, bool)>,
}

fn hexs(b: &[u8]) -> String {
    b.iter().map(|x| format!("{:02x}", x)).collect()
}

/// a set-up step of the cold thread failed (the prover refused, a constructor refused: other properties' subjects)
const SETUP_FAILED: &str = "SETUP-FAILED";

fn cold_thread(spec: &ColdSpec, t: usize) -> (Vec<String>, u64, u64, bool) {
    match cold_thread_inner(spec, t) {
        Ok(x) => x,
        Err(e) => (vec![format!("{} {}", SETUP_FAILED, e)], 0, 0, false),
    }
}

fn cold_thread_inner(spec: &ColdSpec, t: usize) -> Result<(Vec<String>, u64, u64, bool), String> {
    let spins = mix(spec.delays, t as u64) % 5000;
    for _ in 0..spins {
        std::hint::spin_loop();
    }
    let ext = spec.order[t % spec.order.len()].clamp(1, 6) as usize;
    // first use of the static tables happens here, concurrently
    let g = ristretto::create_pedersen_gens_with_extension_degree(ext_of(ext));
    let mut gens = vec![hexs(g.h_base_compressed.as_bytes())];
    gens.extend(g.g_base_compressed_vec.iter().map(|c| hexs(c.as_bytes())));
    gens.extend(g.g_base_vec.iter().map(|p| hexs(p.compress().as_bytes())));
    let bits = BITS[spec.bits_idx as usize % 4];
    let cap = 1usize << (spec.cap_log % 3);
    let params = RangeParameters::init(bits, cap, g).map_err(|e| format!("{:?}", e))?;
    let vg: Vec<[u8; 32]> = params.gi_base_iter().chain(params.hi_base_iter()).map(|x| x.compress().to_bytes()).collect();
    let r: Vec<Scalar> = (0..ext).map(|k| Scalar::from(k as u64 + 11)).collect();
    let v = 1u64 & mask_of(bits);
    let c = params.pc_gens().commit(&Scalar::from(v), &r).map_err(|e| format!("{:?}", e))?;
    let st = RangeStatement::init(params, vec![c], vec![None], None).map_err(|e| format!("{:?}", e))?;
    let w = RangeWitness::init(vec![CommitmentOpening::new(v, r)]).map_err(|e| format!("{:?}", e))?;
    let proof = RangeProof::prove_with_rng(&mut Transcript::new(b"cold"), &st, &w, &mut RngSpec::ChaCha(7).make()).map_err(|e| format!("{:?}", e))?;
    let ok = RangeProof::verify_batch(&mut [Transcript::new(b"cold")], &[st], &[proof.clone()], VerifyAction::VerifyOnly).is_ok();
    Ok((gens, hash_of(&vg), hash_of(&proof.to_bytes()), ok))
}

/// Entry point of the child process (`bpcheck child-c18 <json>`): race from cold, print the results as JSON.
pub fn child_main(json_spec: &str) {
    let spec: ColdSpec = serde_json::from_str(json_spec).expect("cold spec");
    let n = spec.threads.max(1) as usize;
    if spec.other_point_type_first {
        use crate::eng::Engine;
        for ext in [1usize, 6] {
            let p = RangeParameters::<crate::fp::FP>::init(BITS[spec.bits_idx as usize % 4], 1usize << (spec.cap_log % 3), crate::eng::F::pedersen(ext)).expect("parameters over the free module");
            let _ = p.gi_base_iter().count();
        }
    }
    let barrier = Arc::new(Barrier::new(n));
    let outs: Vec<(Vec<String>, u64, u64, bool)> = std::thread::scope(|s| {
        let hs: Vec<_> = (0..n)
            .map(|t| {
                let b = barrier.clone();
                let spec = &spec;
                s.spawn(move || {
                    b.wait();
                    cold_thread(spec, t)
                })
            })
            .collect();
        hs.into_iter().map(|h| h.join().expect("thread")).collect()
    });
    println!("{}", serde_json::to_string(&ColdOut { threads: outs }).unwrap());
}

pub fn cold_oracle(_ctx: &RunCtx, spec: &ColdSpec, log: &mut CaseLog) -> Result<(), String> {
    let exe = std::env::current_exe().map_err(|e| e.to_string())?;
    let out = std::process::Command::new(exe)
        .arg("child-c18")
        .arg(serde_json::to_string(spec).unwrap())
        .env("BPCHECK_CHILD", "1")
        .output()
        .map_err(|e| format!("{} cannot spawn the cold-start child process: {}", crate::runner::INCONCLUSIVE, e))?;
    if !out.status.success() {
        return Err(format!(
            "cold-start child process failed ({:?}): {}",
            out.status,
            String::from_utf8_lossy(&out.stderr).lines().last().unwrap_or("")
        ));
    }
    let got: ColdOut = serde_json::from_slice(&out.stdout).map_err(|e| format!("child output: {}", e))?;
    // expected: the same work done here, warm and single-threaded, and the reference derivation of the generators
    for (t, th) in got.threads.iter().enumerate() {
        let want = cold_thread(spec, t);
        if want.0.first().map(|s| s.starts_with(SETUP_FAILED)).unwrap_or(false) {
            return Err(format!("{} the warm single-threaded run cannot set the scenario up: {}", crate::runner::SKIP, want.0[0]));
        }
        if want.3 != th.3 && !want.3 {
            return Err(format!("{} the proof of the warm single-threaded run does not verify (C01's subject)", crate::runner::SKIP));
        }
        if *th != want {
            let what = if th.0 != want.0 {
                "blinding / value generators"
            } else if th.1 != want.1 {
                "vector generators"
            } else if th.2 != want.2 {
                "proof bytes"
            } else {
                "verification verdict"
            };
            return Err(format!(
                "thread {} of a cold process with {} racing threads obtained different {} than a warm single-threaded run",
                t, spec.threads, what
            ));
        }
        if !th.3 {
            return Err("proof made in a cold racing process does not verify".into());
        }
    }
    let _ = vec_gens::<RistrettoPoint>;
    log.label("cold-child");
    log.label(format!("cold:threads={}", spec.threads));
    log.nontrivial(spec);
    log.sample(json!({"kind": "cold child process", "threads": spec.threads, "degree_order": spec.order, "bits": BITS[spec.bits_idx as usize % 4]}));
    Ok(())
}

pub fn def() -> PropertyDef {
    PropertyDef {
        id: "C18",
        level: "exploration",
        rule: "Three generators. (1) histories x schedules: a pool of 2-5 statements (aggregation 1-4, with / without seed) built from CLONES \
               OF ONE shared parameter object, and one generated history of 5-24 ops per thread for 1-16 threads (quick: <= 8), ops in {create \
               Pedersen generators, construct parameters (small, occasionally 64 x 16), prove(case, rng), verify(case, mode), verify under another context, verify a 2-batch whose second proof is valid / \
               fails the final check / fails while being processed, encode+decode, prove(case) with a failed external RNG (all-zero, constant, 8-byte period, counter), verify a 3-4 batch whose later members carry statements over foreign parameters (other h, other g_0, other bit length, other degree - the refusal must be the same error value every time), verify the case's proof with A / A1 / B replaced by another valid encoding that shares its first 8-31 bytes (run before the genuine proof is ever verified)}; every distinct op is first executed on the calling thread, \
               then the whole list again in reverse order (a result that depends on what ran before differs between the passes), then the \
               threads are released by a barrier with generated spin delays and every op's digest (proof bytes, Ok + masks or Err, generator \
               bytes) must equal the stand-alone digest. (2) cold child processes: 2-16 threads race the FIRST use of the lazily initialised \
               generator statics with a generated order of degrees, construct parameters, prove and verify - in half of the children after parameters over another point type (the harness's free module) were constructed; results must equal a warm \
               single-threaded run. (3) thorough tier: the minimal racing program under miri with seeded schedules \
               (data races / UB). Non-trivial = >= 2 threads or a repeated op; distinct by (threads, distinct ops, total ops, delay seed)."
            .into(),
        assumptions: vec![
            "random schedules, not all schedules; miri explores seeded schedules of a minimal program only (thorough tier)".into(),
            "a verifier whose internal batch weights vary between calls while its results do not is not a violation and is not flagged".into(),
        ],
        exhaustive: false,
        subs: vec![
            sub(
                "R/histories-x-threads",
                no_fixed,
                (800, 10_000),
                |ctx: &RunCtx, _: Option<&()>| sched_strategy(if ctx.tier == Tier::Quick { 8 } else { 16 }),
                oracle,
            ),
            sub(
                "R/cold-start-children",
                |ctx: &RunCtx| {
                    let n = if ctx.tier == Tier::Quick { 48 } else { 600 };
                    (0..n)
                        .map(|i| {
                            let x = mix(ctx.seed ^ 0xc01d, i as u64);
                            ColdSpec {
                                threads: [2u8, 3, 4, 8, 16][(x % 5) as usize],
                                order: (0..(1 + (x >> 8) % 6)).map(|k| 1 + ((x >> (12 + 3 * k)) % 6) as u8).collect(),
                                bits_idx: ((x >> 40) % 4) as u8,
                                cap_log: ((x >> 44) % 3) as u8,
                                delays: x,
                                other_point_type_first: (x >> 50) % 2 == 0,
                            }
                        })
                        .collect()
                },
                (0, 0),
                |_: &RunCtx, f: Option<&ColdSpec>| Just(f.cloned().unwrap()),
                cold_oracle,
            ),
        ],
    }
}
