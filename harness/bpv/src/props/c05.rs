//! C05 Statement binding: any single alteration of an accepted triple is rejected (error value, never panic, never Ok).
use proptest::prelude::*;
use serde::{Deserialize, Serialize};
use serde_json::json;
use tari_bulletproofs_plus::range_proof::{RangeProof, VerifyAction};

use crate::{
    eng::{Engine, F, R},
    gen::{cfg_strategy, lattice, triple_strategy, Cfg, CtxSpec, SeedSpec, Triple, TripleSpec, BITS, CTX_LABELS},
    mutate::{Applied, CompEdit, CompHow, PointHow, PromHow, ProofMut, PubStatement, ScalarHow, StMut, StPointHow},
    refimpl::Proof,
    runner::{guarded, setup, sub, CaseLog, PropertyDef, RunCtx, Sub, Tier},
};

pub fn frac_of(i: usize, n: usize) -> u16 {
    ((((i as u64) << 16) + n as u64 - 1) / n as u64).min(65535) as u16
}

#[derive(Clone, Debug, Serialize, Deserialize)]
pub struct BindSpec {
    pub base: TripleSpec,
    /// seed for replacement values
    pub rep: u64,
}

#[derive(Clone, Debug)]
pub enum Alt {
    P(ProofMut),
    S(StMut),
}

/// Every component position of the triple with 2-3 replacement values each.
pub fn alterations(cfg: &Cfg, rounds: usize, ctx: &CtxSpec, rep: u64) -> Vec<Alt> {
    let mut v = vec![];
    let ns = cfg.ext + 2;
    for i in 0..ns {
        let pos = frac_of(i, ns);
        for how in [ScalarHow::Plus1, ScalarHow::Uniform(rep.wrapping_add(i as u64)), ScalarHow::Neg, ScalarHow::FlipBit((rep >> (i % 8)) as u8), ScalarHow::FlipBit(255), ScalarHow::FlipBit(252)] {
            v.push(Alt::P(ProofMut::Scalar { pos, how }));
        }
    }
    let np = 3 + 2 * rounds;
    for i in 0..np {
        let pos = frac_of(i, np);
        let third = if i % 2 == 0 { PointHow::Identity } else { PointHow::Undecodable };
        for how in [PointHow::Fresh(rep.wrapping_add(100 + i as u64)), PointHow::AddH, PointHow::Scaled(rep ^ i as u64), third, PointHow::FlipBit(255), PointHow::FlipBit(0), PointHow::FlipBit((rep >> (i % 8)) as u8)] {
            v.push(Alt::P(ProofMut::Point { pos, how }));
        }
    }
    // number of folding rounds
    v.push(Alt::P(ProofMut::PushPair(rep)));
    v.push(Alt::P(ProofMut::PopPair));
    v.push(Alt::P(ProofMut::DupPair(frac_of(rounds / 2, rounds.max(1)))));
    // degree tag, alone and together with the d1 length
    for b in [0u8, 1, 2, 3, 4, 5, 6, 7, 255] {
        if b as usize != cfg.ext {
            v.push(Alt::P(ProofMut::DegreeByte(b)));
        }
    }
    if cfg.ext < 6 {
        v.push(Alt::P(ProofMut::DegreeResize(true)));
    }
    if cfg.ext > 1 {
        v.push(Alt::P(ProofMut::DegreeResize(false)));
    }
    // statement
    for j in 0..cfg.m {
        let fj = frac_of(j, cfg.m);
        for how in [StPointHow::Fresh(rep.wrapping_add(200 + j as u64)), StPointHow::AddH, StPointHow::AddG0, StPointHow::Scaled(rep ^ 0x55)] {
            v.push(Alt::S(StMut::Commitment { j: fj, how }));
        }
        for how in [PromHow::Plus1, PromHow::Minus1, PromHow::Raw(rep.rotate_left(j as u32)), PromHow::ToNone, PromHow::ToSome0, PromHow::MaxInRange, PromHow::FlipBitInRange(255), PromHow::FlipBitInRange((rep >> 3) as u8)] {
            v.push(Alt::S(StMut::Promise { j: fj, how }));
        }
    }
    if cfg.m >= 2 {
        for j in 0..cfg.m.min(4) {
            v.push(Alt::S(StMut::SwapCommitments(frac_of(j, cfg.m), frac_of((j + 1) % cfg.m, cfg.m))));
        }
        v.push(Alt::S(StMut::SwapCommitments(frac_of(0, cfg.m), frac_of(cfg.m - 1, cfg.m))));
    }
    for (i, b) in BITS.iter().enumerate() {
        if *b != cfg.bits {
            v.push(Alt::S(StMut::BitLength(i as u8)));
        }
    }
    for how in [StPointHow::Fresh(rep ^ 0xaa), StPointHow::AddH, StPointHow::Scaled(rep ^ 0xbb)] {
        v.push(Alt::S(StMut::HBase(how)));
    }
    for k in 0..cfg.ext {
        for how in [StPointHow::Fresh(rep ^ (0xc0 + k as u64)), StPointHow::AddH, StPointHow::Scaled(rep ^ 0xdd)] {
            v.push(Alt::S(StMut::GBase {
                k: frac_of(k, cfg.ext),
                how,
            }));
        }
    }
    // the compressed copies a statement carries next to its commitments and commitment generators, rewritten by hand (public
    // fields): they are components of the triple like any other
    for j in 0..cfg.m.min(4) {
        let fj = frac_of(j, cfg.m);
        for how in [CompHow::FlipBit(255), CompHow::FlipBit((rep >> (8 + j)) as u8), CompHow::Fresh(rep ^ j as u64)] {
            v.push(Alt::S(StMut::CompressedCopy(CompEdit::Commitment { j: fj, how })));
        }
    }
    for what in 0..4u8 {
        v.push(Alt::S(StMut::CompressedCopy(CompEdit::List(what))));
    }
    for how in [CompHow::FlipBit(255), CompHow::FlipBit((rep >> 16) as u8), CompHow::Fresh(rep ^ 0x77)] {
        v.push(Alt::S(StMut::CompressedCopy(CompEdit::H(how))));
    }
    for k in 0..cfg.ext {
        for how in [CompHow::FlipBit(255), CompHow::FlipBit((rep >> (20 + k)) as u8), CompHow::Fresh(rep ^ (0x99 + k as u64))] {
            v.push(Alt::S(StMut::CompressedCopy(CompEdit::G { k: frac_of(k, cfg.ext), how })));
        }
    }
    // transcript initial state
    let other_label = (ctx.label + 1 + (rep % (CTX_LABELS.len() as u64 - 1)) as u8) % CTX_LABELS.len() as u8;
    v.push(Alt::S(StMut::Context(CtxSpec {
        label: other_label,
        msgs: ctx.msgs.clone(),
    })));
    v.push(Alt::S(StMut::ContextExtra(vec![])));
    v.push(Alt::S(StMut::ContextExtra(rep.to_le_bytes().to_vec())));
    if let Some((l, m)) = ctx.msgs.first() {
        let mut msgs = ctx.msgs.clone();
        let mut m2 = m.clone();
        m2.push(1);
        msgs[0] = (*l, m2);
        v.push(Alt::S(StMut::Context(CtxSpec { label: ctx.label, msgs })));
        v.push(Alt::S(StMut::Context(CtxSpec {
            label: ctx.label,
            msgs: ctx.msgs[1..].to_vec(),
        })));
    }
    v
}

pub fn oracle<E: Engine>(_ctx: &RunCtx, spec: &BindSpec, log: &mut CaseLog) -> Result<(), String> {
    E::reset_case();
    let t = Triple::<E>::build(&spec.base)?;
    let proof = setup(guarded(|| t.prove()), "the prover refused or panicked on a valid witness (C01's subject)")?;
    let bytes = proof.to_bytes();
    let zero_rounds = t.cfg.nm() == 1;
    // the unaltered triple is accepted
    for act in [VerifyAction::VerifyOnly, VerifyAction::RecoverAndVerify] {
        setup(guarded(|| E::verify(&mut [t.transcript()], &[t.st.clone()], &[proof.clone()], act)), "the unaltered honest triple is rejected (C01's subject)")?;
    }
    // partner for batch embedding: same bits / degree, single commitment (so that for m >= 2 the altered member is the
    // strictly largest one and is NOT first in the batch)
    let partner_spec = TripleSpec {
        cfg: Cfg {
            bits: t.cfg.bits,
            m: 1,
            cap: 1,
            ext: t.cfg.ext,
        },
        seed: SeedSpec::None,
        bulk: spec.rep,
        ..spec.base.clone()
    };
    let partner = Triple::<E>::build(&partner_spec)?;
    let partner_proof = guarded(|| partner.prove())?.map_err(crate::runner::skip_err)?;
    let rounds = Proof::parse_layout(&bytes).map_err(crate::runner::skip_err)?.l.len();
    let alts = alterations(&t.cfg, rounds, &spec.base.ctx, spec.rep);
    let mut tested = 0u64;
    let mut controls = 0u64;
    // Does this verifier let the compressed copies decide anything? Replace one by the encoding of another point: if the triple
    // is still accepted, the copies are a cache the verifier does not consult (it works from the points), and rewriting them is
    // not an alteration of the triple. If it is refused, every rewriting of a copy has to be noticed (a copy that is consulted
    // except for its top bit, or except when the list is empty, is a hole).
    let consults = |edit: CompEdit| -> Result<bool, String> {
        let mut ps = PubStatement::<E>::of(&t);
        ps.apply(&StMut::CompressedCopy(edit));
        Ok(match guarded(|| ps.statement(t.seed))? {
            Ok(st) => guarded(|| E::verify(&mut [ps.ctx.transcript()], &[st], &[proof.clone()], VerifyAction::VerifyOnly))?.is_err(),
            Err(_) => true,
        })
    };
    let consults_commitment_copies = consults(CompEdit::Commitment { j: 0, how: CompHow::Fresh(spec.rep ^ 0x9a9a) })?;
    let consults_generator_copies = consults(CompEdit::H(CompHow::Fresh(spec.rep ^ 0x8b8b)))?;
    log.label(format!("compressed-copies-consulted:commitments={} generators={}", consults_commitment_copies, consults_generator_copies));
    for alt in &alts {
        match alt {
            Alt::S(StMut::CompressedCopy(CompEdit::Commitment { .. })) | Alt::S(StMut::CompressedCopy(CompEdit::List(_))) if !consults_commitment_copies => continue,
            Alt::S(StMut::CompressedCopy(CompEdit::H(_))) | Alt::S(StMut::CompressedCopy(CompEdit::G { .. })) if !consults_generator_copies => continue,
            _ => {},
        }
        let mut ps = PubStatement::<E>::of(&t);
        let mut b2 = bytes.clone();
        let mut equivalent = false;
        let kind;
        match alt {
            Alt::P(m) => {
                kind = m.kind();
                if zero_rounds {
                    log.excluded += 1;
                    continue;
                }
                b2 = m.apply::<E::P>(&bytes, t.params.h_base(), t.cfg.bits);
                if b2 == bytes {
                    continue;
                }
            },
            Alt::S(m) => {
                kind = m.kind();
                match ps.apply(m) {
                    Applied::Noop => continue,
                    Applied::Equivalent => equivalent = true,
                    Applied::Changed => {},
                }
            },
        }
        // constructors / decoder may already refuse: that is an error value, as required
        let st = match guarded(|| ps.statement(t.seed))? {
            Ok(s) => s,
            Err(_) => {
                tested += 1;
                continue;
            },
        };
        let p2 = if b2 == bytes {
            proof.clone()
        } else {
            match guarded(|| RangeProof::<E::P>::from_bytes(&b2))? {
                Ok(p) => p,
                Err(_) => {
                    tested += 1;
                    continue;
                },
            }
        };
        for act in [VerifyAction::VerifyOnly, VerifyAction::RecoverAndVerify] {
            let r = guarded(|| E::verify(&mut [ps.ctx.transcript()], &[st.clone()], &[p2.clone()], act))
                .map_err(|e| format!("{} while verifying triple altered by {:?}", e, alt))?;
            if equivalent {
                if r.is_err() {
                    return Err(format!("replacing an absent promise by zero (or back) made verification fail: {:?}", alt));
                }
            } else if r.is_ok() {
                return Err(format!("altered triple ACCEPTED in {:?}: alteration {:?}", act, alt));
            }
        }
        // a batch shares its commitment generators, and the verifier reads them (compressed copies included) from the first member
        // after checking that all members hold the same POINTS: the hand-edited compressed copy of a generator in a later
        // member is never looked at, so only the stand-alone verification above applies to it
        if matches!(alt, Alt::S(StMut::CompressedCopy(CompEdit::H(_))) | Alt::S(StMut::CompressedCopy(CompEdit::G { .. }))) {
            tested += 1;
            continue;
        }
        // same alteration inside a batch, altered member last
        let r = guarded(|| {
            E::verify(
                &mut [partner.transcript(), ps.ctx.transcript()],
                &[partner.st.clone(), st.clone()],
                &[partner_proof.clone(), p2.clone()],
                VerifyAction::VerifyOnly,
            )
        })
        .map_err(|e| format!("{} while verifying a batch containing the triple altered by {:?}", e, alt))?;
        // ... directly behind the ORIGINAL, unaltered triple (a verifier that recognises repeated members)
        let r0 = guarded(|| {
            E::verify(
                &mut [t.transcript(), ps.ctx.transcript()],
                &[t.st.clone(), st.clone()],
                &[proof.clone(), p2.clone()],
                VerifyAction::VerifyOnly,
            )
        })
        .map_err(|e| format!("{} while verifying [original, altered] for {:?}", e, alt))?;
        if !equivalent && r0.is_ok() {
            return Err(format!("batch [original triple, altered copy] ACCEPTED: alteration {:?}", alt));
        }
        if equivalent && r0.is_err() {
            return Err(format!("batch [original, None<->Some(0) copy] rejected: {:?}", alt));
        }
        // ... and in a batch of three, last or in the middle (alternating)
        let r3 = guarded(|| {
            if tested % 2 == 0 {
                E::verify(
                    &mut [partner.transcript(), partner.transcript(), ps.ctx.transcript()],
                    &[partner.st.clone(), partner.st.clone(), st.clone()],
                    &[partner_proof.clone(), partner_proof.clone(), p2.clone()],
                    VerifyAction::VerifyOnly,
                )
            } else {
                E::verify(
                    &mut [partner.transcript(), ps.ctx.transcript(), partner.transcript()],
                    &[partner.st.clone(), st.clone(), partner.st.clone()],
                    &[partner_proof.clone(), p2.clone(), partner_proof.clone()],
                    VerifyAction::VerifyOnly,
                )
            }
        })
        .map_err(|e| format!("{} while verifying a 3-batch containing the triple altered by {:?}", e, alt))?;
        if !equivalent && r3.is_ok() {
            return Err(format!(
                "batch of three with the altered member (m={}) {} ACCEPTED: alteration {:?}",
                t.cfg.m,
                if tested % 2 == 0 { "last" } else { "in the middle" },
                alt
            ));
        }
        if equivalent && r3.is_err() {
            return Err(format!("3-batch with promise None<->Some(0) member rejected: {:?}", alt));
        }
        if equivalent {
            if r.is_err() {
                return Err(format!("batch with promise None<->Some(0) member rejected: {:?}", alt));
            }
            controls += 1;
        } else {
            if r.is_ok() {
                return Err(format!(
                    "batch [valid m=1 member, altered member (m={})] ACCEPTED: alteration {:?}",
                    t.cfg.m, alt
                ));
            }
            tested += 1;
            log.nontrivial(&(kind.clone(), t.cfg, spec.rep, tested));
        }
        log.label(format!("alter:{}", kind));
    }
    log.extra_evals += tested + controls;
    log.label(format!("engine={}", E::NAME));
    log.labels(t.classes());
    log.sample(json!({"engine": E::NAME, "cfg": t.cfg, "alterations_tested": tested, "equivalence_controls": controls,
        "first_alterations": alts.iter().take(3).map(|a| format!("{:?}", a)).collect::<Vec<_>>()}));
    Ok(())
}

fn sizes<E: Engine>(ctx: &RunCtx) -> (usize, usize) {
    match (E::IS_F, ctx.tier) {
        (true, Tier::Quick) => (256, 32),
        (true, Tier::Thorough) => (1024, 64),
        (false, Tier::Quick) => (64, 8),
        (false, Tier::Thorough) => (256, 32),
    }
}

fn bind_sub<E: Engine>(cases: (usize, usize)) -> Sub {
    sub(
        &format!("{}/every-position", E::NAME),
        |ctx: &RunCtx| {
            let (s, m) = sizes::<E>(ctx);
            lattice(s, m)
        },
        cases,
        |ctx: &RunCtx, fixed: Option<&Cfg>| {
            let (s, m) = sizes::<E>(ctx);
            let cfg = match fixed {
                Some(c) => Just(*c).boxed(),
                None => cfg_strategy(s, m),
            };
            (triple_strategy(cfg), any::<u64>()).prop_map(|(base, rep)| BindSpec { base, rep })
        },
        oracle::<E>,
    )
}

pub fn def() -> PropertyDef {
    PropertyDef {
        id: "C05",
        level: "exploration",
        rule: "A case is an accepted honest triple (C01 generator); the oracle enumerates EVERY component position with 2-6 replacement values: \
               each of the d+2 proof scalars (+1, uniform, negated, single bit flips incl. the top bits), each of the 3+2k proof points (fresh, +h, scaled, identity/undecodable, single bit flips incl. bit 255), the \
               round count (push / pop / duplicate a pair), the degree tag (every other byte value class; tag and d1 resized together), each \
               commitment (fresh, +h, +g0, scaled), commitment order, each promise (+-1, uniform, None, Some(0), max), every other bit length, h \
               and each g_k (fresh, +other, scaled), the transcript context (label, extra message, edited / dropped message). Each altered triple \
               is verified alone in VerifyOnly and RecoverAndVerify and as the last member of a 2-batch behind a valid single-commitment \
               member, behind the unaltered original itself, and inside 3-batches; every result must be Err (from decoder, constructors or verifier), never Ok, never a panic; the None<->Some(0) promise \
               change is the control and must still be accepted. Non-trivial = an alteration that changed the encoding and reached the verifier or \
               a refusing constructor; distinct by (kind, configuration, case, index)."
            .into(),
        assumptions: vec![
            "alterations of proof elements are impossible for the zero-round cell bits*m == 1 (known finding C15); they are excluded and counted".into(),
            "size bound bits*capacity <= 256 (quick F) / 64 (quick R)".into(),
        ],
        exhaustive: false,
        subs: vec![bind_sub::<F>((500, 8000)), bind_sub::<R>((80, 1000))],
    }
}
