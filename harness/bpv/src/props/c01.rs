//! C01 Completeness: every honest proof verifies, in every configuration.
use serde_json::json;

use crate::{
    eng::{action_name, Engine, ACTIONS, F, R},
    fp,
    gen::{cfg_strategy, lattice, triple_strategy, Cfg, Triple, TripleSpec},
    runner::{guarded, sub, CaseLog, PropertyDef, RunCtx, Sub, Tier, INCONCLUSIVE},
};
use proptest::prelude::*;

fn sizes<E: Engine>(ctx: &RunCtx) -> (usize, usize) {
    match (E::IS_F, ctx.tier) {
        (true, Tier::Quick) => (2048, 128),
        (true, Tier::Thorough) => (8192, 128),
        (false, Tier::Quick) => (512, 64),
        (false, Tier::Thorough) => (2048, 128),
    }
}

pub fn oracle<E: Engine>(_ctx: &RunCtx, spec: &TripleSpec, log: &mut CaseLog) -> Result<(), String> {
    E::reset_case();
    let t = Triple::<E>::build(spec)?;
    let proof = guarded(|| t.prove())?.map_err(|e| format!("prover refused a valid witness: {:?}", e))?;
    let bytes = proof.to_bytes();
    for act in ACTIONS {
        if E::IS_F {
            fp::msm_log_start();
        }
        let r = guarded(|| E::verify(&mut [t.transcript()], &[t.st.clone()], &[proof.clone()], act))?;
        let msm = if E::IS_F { fp::msm_log_stop() } else { vec![] };
        if let Err(e) = &r {
            return Err(format!("honest proof rejected in mode {}: {:?}", action_name(act), e));
        }
        if E::IS_F && act != tari_bulletproofs_plus::range_proof::VerifyAction::RecoverOnly {
            let last = msm.last().ok_or(format!("{} verifier performed no precomputed multiscalar multiplication", INCONCLUSIVE))?;
            if !last.is_zero() {
                return Err(format!("{} verifier returned Ok but its last multiscalar result is not the identity", INCONCLUSIVE));
            }
        }
    }
    // ... and inside a batch next to an honest proof of another aggregation size, in both orders
    {
        let pm = if t.cfg.m >= 2 { 1 } else { 2 };
        let pspec = TripleSpec {
            cfg: Cfg {
                bits: t.cfg.bits,
                m: pm,
                cap: pm,
                ext: t.cfg.ext,
            },
            seed: crate::gen::SeedSpec::None,
            bulk: spec.bulk ^ 0xbeef,
            ..spec.clone()
        };
        if t.cfg.bits * pm <= 4096 {
            let partner = Triple::<E>::build(&pspec)?;
            let pproof = guarded(|| partner.prove())?.map_err(|e| format!("prover refused a valid witness: {:?}", e))?;
            for order in 0..2 {
                let (mut ts, sts, ps) = if order == 0 {
                    (vec![partner.transcript(), t.transcript()], vec![partner.st.clone(), t.st.clone()], vec![pproof.clone(), proof.clone()])
                } else {
                    (vec![t.transcript(), partner.transcript()], vec![t.st.clone(), partner.st.clone()], vec![proof.clone(), pproof.clone()])
                };
                for act in [tari_bulletproofs_plus::range_proof::VerifyAction::VerifyOnly, tari_bulletproofs_plus::range_proof::VerifyAction::RecoverAndVerify] {
                    let mut ts2 = ts.clone();
                    guarded(|| E::verify(&mut ts2, &sts, &ps, act))?.map_err(|e| {
                        format!(
                            "two honest proofs (aggregation {} and {}, order {}) rejected as a batch in {}: {:?}",
                            t.cfg.m,
                            pm,
                            order,
                            action_name(act),
                            e
                        )
                    })?;
                }
                ts.clear();
            }
        }
    }
    log.label(format!("engine={}", E::NAME));
    log.labels(t.classes());
    let healthy = !spec.rng.is_faulty();
    if !(t.cfg.in_suite() && healthy) {
        let slot0 = &spec.slots[0];
        log.nontrivial(&(t.cfg, slot0.vclass, slot0.pclass, t.seed.is_some(), spec.rng.class()));
    }
    log.sample(json!({"engine": E::NAME, "cfg": t.cfg, "values": t.values, "promises": t.promises, "seed": spec.seed, "rng": spec.rng,
        "ctx": spec.ctx, "proof_len": bytes.len()}));
    Ok(())
}

fn sub_for<E: Engine>(cases: (usize, usize)) -> Sub {
    sub(
        &format!("{}/lattice+random", E::NAME),
        |ctx: &RunCtx| {
            let (s, m) = sizes::<E>(ctx);
            lattice(s, m)
        },
        cases,
        |ctx: &RunCtx, fixed: Option<&Cfg>| {
            let (s, m) = sizes::<E>(ctx);
            let cfg = match fixed {
                Some(c) => Just(*c).boxed(),
                None => cfg_strategy(s, m),
            };
            triple_strategy(cfg)
        },
        oracle::<E>,
    )
}

/// long all-honest batches with mixed aggregation sizes (completeness must not depend on the batch's size or composition)
#[derive(Clone, Debug, serde::Serialize, serde::Deserialize)]
pub struct LongSpec {
    pub bits_idx: u8,
    pub ext: usize,
    pub pool: Vec<crate::props::c03::PoolMember>,
    pub k: u16,
    pub order: u64,
    pub mode: u8,
}

pub fn long_oracle<E: Engine>(_ctx: &RunCtx, spec: &LongSpec, log: &mut CaseLog) -> Result<(), String> {
    use crate::props::c03::{build_member, verify_members, Member};
    use rand_core::RngCore;
    E::reset_case();
    let bits = crate::gen::BITS[spec.bits_idx as usize % 4];
    let pool: Vec<Member<E>> = spec
        .pool
        .iter()
        .map(|pm| build_member::<E>(bits, spec.ext, pm, bits.max(16)))
        .collect::<Result<_, _>>()?;
    let k = spec.k as usize;
    let mut rng = crate::gen::chacha(spec.order);
    let seq: Vec<&Member<E>> = (0..k).map(|_| &pool[(rng.next_u32() as usize) % pool.len()]).collect();
    let act = ACTIONS[spec.mode as usize % 3];
    let r = verify_members::<E>(&seq, act)?;
    match r {
        Ok(masks) if masks.len() == k => {},
        Ok(masks) => return Err(format!("{} results for an all-honest batch of {}", masks.len(), k)),
        Err(e) => {
            return Err(format!(
                "all-honest batch of {} proofs (aggregation sizes {:?}) rejected in {}: {}",
                k,
                pool.iter().map(|m| m.m).collect::<std::collections::BTreeSet<_>>(),
                action_name(act),
                e
            ))
        },
    }
    log.label(format!("engine={}", E::NAME));
    log.label(format!("long-batch:k={}", if k > 512 { ">512" } else if k > 256 { "257-512" } else { "<=256" }));
    log.nontrivial(&(k, bits, spec.ext, spec.order));
    log.sample(json!({"engine": E::NAME, "kind": "all-honest batch", "k": k, "bits": bits, "ext": spec.ext, "mode": action_name(act)}));
    Ok(())
}

pub fn long_sub<E: Engine>(cases: (usize, usize)) -> Sub {
    sub(
        &format!("{}/honest-long-mixed-batches", E::NAME),
        crate::runner::no_fixed,
        cases,
        |_: &RunCtx, _: Option<&()>| long_strategy(),
        long_oracle::<E>,
    )
}

pub fn long_strategy() -> impl Strategy<Value = LongSpec> {
    (
        0u8..4,
        1usize..=6,
        prop::collection::vec(crate::props::c03::pool_member_valid(), 2..=5),
        prop_oneof![1 => 2u16..=40, 2 => 250u16..=270, 2 => 500u16..=530, 1 => 271u16..=700],
        any::<u64>(),
        0u8..3,
    )
        .prop_map(|(bits_idx, ext, pool, k, order, mode)| LongSpec {
            bits_idx,
            ext,
            pool,
            k,
            order,
            mode,
        })
}

pub fn def() -> PropertyDef {
    PropertyDef {
        id: "C01",
        level: "exploration",
        rule: "Cases = every point of the (bits, aggregation, capacity) lattice once (degree round-robin) plus random lattice points x all six degrees, \
               each with per-slot value class {0,1,2^b-1,2^(b-1),2^(b-1)-1,uniform,top-half}, promise class {None,0,v,v-1,v/3,uniform<=v}, blinding \
               component classes {uniform,0,1,-1}, transcript context, prover RNG model {ChaCha, all-zero, constant, period-8, counter, operating-system entropy through the convenience entry RangeProof::prove} and seed \
               class; on engines R (Ristretto) and F (free module). Oracle: prove Ok, verify Ok in all three modes (that an INDEPENDENT verifier accepts the same bytes is decided by C02 and C19, not here); the proof is also accepted in a 2-batch next to an honest proof of another aggregation size (both orders). Second generator: all-honest batches of 2-700 members (sizes around 256 and 512 stratified) drawn from a pool of 2-5 honest members with mixed aggregation sizes must be accepted with exactly k results. Non-trivial = the tuple (bits,m,cap,degree,value class,promise class,seed?,rng model) \
               is outside the repository suite's 16 tuples-with-healthy-RNG; distinct by that tuple."
            .into(),
        assumptions: vec![
            "engine F runs the library's generic prover/verifier over a harness-defined free module; src/ristretto.rs and dalek arithmetic are exercised on engine R only".into(),
            "size bound bits*capacity <= 2048 (quick F) / 512 (quick R) / 8192 (thorough F) / 2048 (thorough R) is a cost bound of the check".into(),
            "one RNG model in fifteen is operating-system entropy (the only way to reach RangeProof::prove): those proofs are not reproducible byte for byte, the verdicts judged are".into(),
        ],
        exhaustive: false,
        subs: vec![
            sub_for::<F>((20_000, 200_000)),
            sub_for::<R>((2000, 15_000)),
            long_sub::<F>((160, 3000)),
            long_sub::<R>((24, 300)),
        ],
    }
}
