//! C01 Completeness: every honest proof verifies, in every configuration.
use serde_json::json;

use crate::{
    eng::{action_name, Engine, ACTIONS, F, R},
    fp,
    gen::{cfg_strategy, lattice, triple_strategy, Cfg, Triple, TripleSpec},
    refimpl::{verify_residual, Grp, Proof},
    runner::{guarded, sub, CaseLog, PropertyDef, RunCtx, Sub, Tier, INCONCLUSIVE},
};
use proptest::prelude::*;

fn sizes<E: Engine>(ctx: &RunCtx) -> (usize, usize) {
    match (E::IS_F, ctx.tier) {
        (true, Tier::Quick) => (2048, 128),
        (true, Tier::Thorough) => (8192, 128),
        (false, Tier::Quick) => (512, 64),
        (false, Tier::Thorough) => (2048, 128),
    }
}

pub fn oracle<E: Engine>(_ctx: &RunCtx, spec: &TripleSpec, log: &mut CaseLog) -> Result<(), String> {
    E::reset_case();
    let t = Triple::<E>::build(spec)?;
    let proof = guarded(|| t.prove())?.map_err(|e| format!("prover refused a valid witness: {:?}", e))?;
    let bytes = proof.to_bytes();
    for act in ACTIONS {
        if E::IS_F {
            fp::msm_log_start();
        }
        let r = guarded(|| E::verify(&mut [t.transcript()], &[t.st.clone()], &[proof.clone()], act))?;
        let msm = if E::IS_F { fp::msm_log_stop() } else { vec![] };
        if let Err(e) = &r {
            return Err(format!("honest proof rejected in mode {}: {:?}", action_name(act), e));
        }
        if E::IS_F && act != tari_bulletproofs_plus::range_proof::VerifyAction::RecoverOnly {
            let last = msm.last().ok_or(format!("{} verifier performed no precomputed multiscalar multiplication", INCONCLUSIVE))?;
            if !last.is_zero() {
                return Err(format!("{} verifier returned Ok but its last multiscalar result is not the identity", INCONCLUSIVE));
            }
        }
    }
    // independent reference verifier on the same bytes
    let pf = Proof::parse_layout(&bytes).map_err(|e| format!("reference parser refuses prover output: {:?}", e))?;
    match verify_residual(&mut t.transcript(), &t.ref_stmt(), &pf) {
        Ok(res) if res == <E::P as Grp>::zero() => {},
        Ok(_) => return Err("reference verifier: relation does not hold for an honest library proof".into()),
        Err(r) => return Err(format!("reference verifier refuses an honest library proof: {:?}", r)),
    }
    log.label(format!("engine={}", E::NAME));
    log.labels(t.classes());
    let healthy = !spec.rng.is_faulty();
    if !(t.cfg.in_suite() && healthy) {
        let slot0 = &spec.slots[0];
        log.nontrivial(&(t.cfg, slot0.vclass, slot0.pclass, t.seed.is_some(), spec.rng.class()));
    }
    log.sample(json!({"engine": E::NAME, "cfg": t.cfg, "values": t.values, "promises": t.promises, "seed": spec.seed, "rng": spec.rng,
        "ctx": spec.ctx, "proof_len": bytes.len()}));
    Ok(())
}

fn sub_for<E: Engine>(cases: (usize, usize)) -> Sub {
    sub(
        &format!("{}/lattice+random", E::NAME),
        |ctx: &RunCtx| {
            let (s, m) = sizes::<E>(ctx);
            lattice(s, m)
        },
        cases,
        |ctx: &RunCtx, fixed: Option<&Cfg>| {
            let (s, m) = sizes::<E>(ctx);
            let cfg = match fixed {
                Some(c) => Just(*c).boxed(),
                None => cfg_strategy(s, m),
            };
            triple_strategy(cfg)
        },
        oracle::<E>,
    )
}

pub fn def() -> PropertyDef {
    PropertyDef {
        id: "C01",
        level: "exploration",
        rule: "Cases = every point of the (bits, aggregation, capacity) lattice once (degree round-robin) plus random lattice points x all six degrees, \
               each with per-slot value class {0,1,2^b-1,2^(b-1),2^(b-1)-1,uniform,top-half}, promise class {None,0,v,v-1,v/3,uniform<=v}, blinding \
               component classes {uniform,0,1,-1}, transcript context, prover RNG model {ChaCha, all-zero, constant, period-8, counter} and seed \
               class; on engines R (Ristretto) and F (free module). Oracle: prove Ok, verify Ok in all three modes, independent reference \
               verifier accepts the bytes, F residual is zero. Non-trivial = the tuple (bits,m,cap,degree,value class,promise class,seed?,rng model) \
               is outside the repository suite's 16 tuples-with-healthy-RNG; distinct by that tuple."
            .into(),
        assumptions: vec![
            "engine F runs the library's generic prover/verifier over a harness-defined free module; src/ristretto.rs and dalek arithmetic are exercised on engine R only".into(),
            "size bound bits*capacity <= 2048 (quick F) / 512 (quick R) / 8192 (thorough F) / 2048 (thorough R) is a cost bound of the check".into(),
        ],
        exhaustive: false,
        subs: vec![sub_for::<F>((20_000, 200_000)), sub_for::<R>((2000, 15_000))],
    }
}
