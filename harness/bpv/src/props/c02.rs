//! C02 Soundness: the verifier enforces exactly the Bulletproofs+ relation.
use curve25519_dalek::scalar::Scalar;
use proptest::prelude::*;
use rand_core::RngCore;
use serde::{Deserialize, Serialize};
use serde_json::json;
use tari_bulletproofs_plus::{
    range_proof::{RangeProof, VerifyAction},
    range_statement::RangeStatement,
};

use crate::{
    eng::{Engine, F, R},
    fp::{self, g_id, FP, H_ID},
    gen::{cfg_strategy, chacha, ctx_strategy, healthy_rng_strategy, lattice, mask_of, rand_scalar, triple_strategy, Cfg, CtxSpec, Triple, TripleSpec},
    mutate::{proof_mut, st_mut, Applied, ProofMut, PubStatement, StMut},
    refimpl::{ref_prove, vec_gens, verify_residual_opts, Cheat, Grp, Proof, RefWitness, Stmt},
    runner::{guarded, setup, SKIP, sub, CaseLog, PropertyDef, RunCtx, Sub, Tier, INCONCLUSIVE},
};

fn sizes<E: Engine>(ctx: &RunCtx) -> (usize, usize) {
    match (E::IS_F, ctx.tier) {
        (true, Tier::Quick) => (1024, 512),
        (true, Tier::Thorough) => (4096, 1024),
        (false, Tier::Quick) => (256, 32),
        (false, Tier::Thorough) => (1024, 64),
    }
}

// ---------------------------------------------------------------------------------------------------------------------
// (g3) garbage proofs over F: the verifier's residual must equal weight x the reference residual on every coordinate

#[derive(Clone, Debug, Serialize, Deserialize, PartialEq, Eq, Hash)]
pub enum Shape {
    Correct,
    RoundsPlus1,
    RoundsMinus1,
    D1Plus1,
    D1Minus1,
    TagPlus1,
}

#[derive(Clone, Debug, Serialize, Deserialize)]
pub struct GarbageSpec {
    pub cfg: Cfg,
    pub bulk: u64,
    pub ctx: CtxSpec,
    /// terms per garbage point (0 => a single generator)
    pub terms: u8,
    /// every promise nonzero (else mixed None / Some(0) / Some(p))
    pub all_promises: bool,
    pub shape: Shape,
}

fn garbage_strategy(cfg: BoxedStrategy<Cfg>) -> impl Strategy<Value = GarbageSpec> {
    (
        cfg,
        any::<u64>(),
        ctx_strategy(),
        0u8..6,
        any::<bool>(),
        prop_oneof![
            12 => Just(Shape::Correct),
            1 => Just(Shape::RoundsPlus1),
            1 => Just(Shape::RoundsMinus1),
            1 => Just(Shape::D1Plus1),
            1 => Just(Shape::D1Minus1),
            1 => Just(Shape::TagPlus1),
        ],
    )
        .prop_map(|(cfg, bulk, ctx, terms, all_promises, shape)| GarbageSpec {
            cfg,
            bulk,
            ctx,
            terms,
            all_promises,
            shape,
        })
}

fn garbage_point(rng: &mut impl RngCore, cfg: &Cfg, terms: u8, pool_g: &[FP], pool_h: &[FP], fresh: u128) -> FP {
    let mut p = FP::basis(fresh).scaled(&rand_scalar(rng));
    for _ in 0..=terms {
        let s = rand_scalar(rng);
        let which = rng.next_u32() % 4;
        let q = match which {
            0 => FP::basis(H_ID),
            1 => FP::basis(g_id((rng.next_u32() as usize) % cfg.ext)),
            2 => pool_g[(rng.next_u32() as usize) % pool_g.len()].clone(),
            _ => pool_h[(rng.next_u32() as usize) % pool_h.len()].clone(),
        };
        p.add_scaled(&s, &q);
    }
    p
}

pub fn garbage_oracle(_ctx: &RunCtx, spec: &GarbageSpec, log: &mut CaseLog) -> Result<(), String> {
    F::reset_case();
    let cfg = spec.cfg;
    let nm = cfg.nm();
    if nm == 1 {
        // a zero-round proof cannot be constructed from bytes (known finding C15); nothing to feed the verifier
        log.excluded += 1;
        log.label("excluded:zero-rounds");
        return Ok(());
    }
    let mut rng = chacha(spec.bulk);
    // vector generators of all `cap` parties, so that points may also carry generators beyond bits*m
    let mut pool_g = vec![];
    let mut pool_h = vec![];
    for j in 0..cfg.cap {
        pool_g.extend(vec_gens::<FP>(b'G', j as u32, cfg.bits));
        pool_h.extend(vec_gens::<FP>(b'H', j as u32, cfg.bits));
    }
    let mut fresh = 0x1_0000_0000u128;
    let mut next_fresh = || {
        fresh += 1;
        fresh
    };
    let mut gp = |rng: &mut rand_chacha::ChaCha12Rng| garbage_point(rng, &cfg, spec.terms, &pool_g, &pool_h, next_fresh());
    let commitments: Vec<FP> = (0..cfg.m).map(|_| gp(&mut rng)).collect();
    let promises: Vec<Option<u64>> = (0..cfg.m)
        .map(|_| {
            let p = rng.next_u64() & mask_of(cfg.bits);
            if spec.all_promises {
                Some(p.max(1))
            } else {
                match rng.next_u32() % 3 {
                    0 => None,
                    1 => Some(0),
                    _ => Some(p),
                }
            }
        })
        .collect();
    let rounds = cfg.rounds();
    let (k, d, tag) = match spec.shape {
        Shape::Correct => (rounds, cfg.ext, cfg.ext),
        Shape::RoundsPlus1 => (rounds + 1, cfg.ext, cfg.ext),
        Shape::RoundsMinus1 => ((rounds - 1).max(1), cfg.ext, cfg.ext),
        Shape::D1Plus1 => (rounds, (cfg.ext + 1).min(6), (cfg.ext + 1).min(6)),
        Shape::D1Minus1 => (rounds, (cfg.ext - 1).max(1), (cfg.ext - 1).max(1)),
        Shape::TagPlus1 => (rounds, cfg.ext, (cfg.ext + 1).min(6)),
    };
    let a = gp(&mut rng);
    let a1 = gp(&mut rng);
    let b_fresh = 0x2_0000_0000u128;
    let mut b = gp(&mut rng);
    b.add_scaled(&Scalar::ONE, &FP::basis(b_fresh));
    let ls: Vec<FP> = (0..k).map(|_| gp(&mut rng)).collect();
    let rs: Vec<FP> = (0..k).map(|_| gp(&mut rng)).collect();
    let pf = Proof {
        ext: tag as u8,
        d1: (0..d).map(|_| rand_scalar(&mut rng).to_bytes()).collect(),
        a: a.enc(),
        a1: a1.enc(),
        b: b.enc(),
        r1: rand_scalar(&mut rng).to_bytes(),
        s1: rand_scalar(&mut rng).to_bytes(),
        l: ls.iter().map(|p| p.enc()).collect(),
        r: rs.iter().map(|p| p.enc()).collect(),
    };
    let mut bytes = pf.encode();
    if spec.shape == Shape::TagPlus1 && tag != d {
        // tag says d+1 but only d scalars follow: the layout shifts; both sides must simply refuse
        bytes[0] = tag as u8;
    }
    let params = F::params(cfg.bits, cfg.cap, cfg.ext).map_err(|e| format!("params: {:?}", e))?;
    let st = RangeStatement::init(params, commitments.clone(), promises.clone(), None).map_err(|e| format!("statement: {:?}", e))?;
    let (h, g) = <FP as Grp>::pedersen(cfg.ext);
    let rst = Stmt {
        bits: cfg.bits,
        h,
        g,
        commitments,
        promises: promises.clone(),
    };
    // reference
    let ref_out = Proof::parse_layout(&bytes)
        .ok()
        .map(|p| verify_residual_opts(&mut spec.ctx.transcript(), &rst, &p, false));
    // library
    let lib_proof = guarded(|| RangeProof::<FP>::from_bytes(&bytes))?;
    let lib_proof = match lib_proof {
        Ok(p) => p,
        Err(_) => {
            if matches!(ref_out, Some(Ok(ref r)) if r.is_zero()) {
                return Err("decoder refuses a proof for which the reference relation holds".into());
            }
            log.label("garbage:lib-decode-refused");
            return Ok(());
        },
    };
    fp::msm_log_start();
    let lib = guarded(|| F::verify(&mut [spec.ctx.transcript()], &[st], &[lib_proof], VerifyAction::VerifyOnly));
    let msm = fp::msm_log_stop();
    let lib = lib?;
    log.label(format!("garbage:shape={:?}", spec.shape));
    log.label(format!("bits={}", cfg.bits));
    log.label(format!("m={}", cfg.m));
    log.label(format!("cap/m={}", cfg.cap / cfg.m));
    log.label(format!("ext={}", cfg.ext));
    match (&lib, msm.last()) {
        (Ok(_), Some(res)) if !res.is_zero() => {
            return Err(format!("{} verifier returned Ok with a nonzero final multiscalar result", INCONCLUSIVE));
        },
        (Ok(_), _) => {
            // accepted: the reference relation must hold
            match &ref_out {
                Some(Ok(r)) if r.is_zero() => {},
                other => {
                    return Err(format!(
                        "verifier ACCEPTED a garbage proof; reference says {:?}",
                        other.as_ref().map(|r| r.as_ref().map(|x| x.0.len()))
                    ))
                },
            }
        },
        (Err(_), None) => {
            // refused before the final check: the reference must not accept
            if matches!(&ref_out, Some(Ok(r)) if r.is_zero()) {
                return Err("verifier refuses a proof for which the reference relation holds".into());
            }
            log.label("garbage:lib-refused-early");
        },
        (Err(_), Some(res)) => {
            let rr = match &ref_out {
                Some(Ok(r)) => r,
                other => {
                    return Err(format!(
                        "verifier evaluated its final equation on an input the reference refuses outright: {:?}",
                        other.as_ref().map(|r| r.as_ref().err())
                    ))
                },
            };
            let w = -res.coef(b_fresh);
            if w == Scalar::ZERO {
                return Err("batch weight of the proof is zero (coefficient of the marker planted in B vanished)".into());
            }
            let expect = rr.scaled(&w);
            if &expect != res {
                // report the first differing coordinates
                let mut diffs = vec![];
                let keys: std::collections::BTreeSet<u128> = expect.0.keys().chain(res.0.keys()).copied().collect();
                for k in keys {
                    if expect.coef(k) != res.coef(k) {
                        diffs.push(coord_name(k, &cfg, &pool_g, &pool_h));
                        if diffs.len() >= 6 {
                            break;
                        }
                    }
                }
                return Err(format!(
                    "verifier's final equation differs from weight x reference relation on coordinates {:?}",
                    diffs
                ));
            }
            // h-coordinate is where the promises enter (C07 reads this label)
            if promises.iter().any(|p| p.unwrap_or(0) > 0) || cfg.m >= 8 || cfg.ext >= 2 || spec.terms > 0 {
                log.nontrivial(&(cfg, spec.terms, spec.all_promises, spec.bulk));
            }
            log.label(format!("garbage:residual-coordinates={}", bucket(res.0.len())));
        },
    }
    log.sample(json!({"kind": "garbage", "cfg": cfg, "shape": spec.shape, "terms": spec.terms, "promises": promises, "proof_len": bytes.len(),
        "lib": lib.is_ok(), "residual_coordinates": msm.last().map(|r| r.0.len())}));
    Ok(())
}

fn bucket(n: usize) -> &'static str {
    match n {
        0 => "0",
        1..=15 => "1-15",
        16..=127 => "16-127",
        128..=1023 => "128-1023",
        _ => ">=1024",
    }
}

fn coord_name(k: u128, cfg: &Cfg, pool_g: &[FP], pool_h: &[FP]) -> String {
    if k == H_ID {
        return "h".into();
    }
    for e in 0..cfg.ext {
        if k == g_id(e) {
            return format!("g[{}]", e);
        }
    }
    for (i, p) in pool_g.iter().enumerate() {
        if p.basis_id() == Some(k) {
            return format!("G[{}]", i);
        }
    }
    for (i, p) in pool_h.iter().enumerate() {
        if p.basis_id() == Some(k) {
            return format!("H[{}]", i);
        }
    }
    format!("marker#{:x}", k)
}

// ---------------------------------------------------------------------------------------------------------------------
// (g1) honest proofs with 0..2 proof mutations and 0..1 statement mutations: verdict vs reference, both directions

#[derive(Clone, Debug, Serialize, Deserialize)]
pub struct MutSpec {
    pub base: TripleSpec,
    pub pmuts: Vec<ProofMut>,
    pub smuts: Vec<StMut>,
}

fn mut_strategy(cfg: BoxedStrategy<Cfg>) -> impl Strategy<Value = MutSpec> {
    (
        triple_strategy(cfg),
        prop::collection::vec(proof_mut(), 0..=2),
        prop::collection::vec(st_mut(), 0..=1),
    )
        .prop_map(|(base, pmuts, smuts)| MutSpec { base, pmuts, smuts })
}

/// Verdicts of library and reference on (statement, bytes); returns (lib_ok, relation_holds, ref_strict_accepts)
pub fn verdicts<E: Engine>(
    ps: &PubStatement<E>,
    st: &RangeStatement<E::P>,
    bytes: &[u8],
    honest_obj: Option<&RangeProof<E::P>>,
) -> Result<(bool, bool, bool), String> {
    let decoded;
    let obj = match honest_obj {
        Some(p) => Some(p),
        None => {
            decoded = guarded(|| RangeProof::<E::P>::from_bytes(bytes))?.ok();
            decoded.as_ref()
        },
    };
    let lib_ok = match obj {
        Some(p) => {
            let v = guarded(|| E::verify(&mut [ps.ctx.transcript()], &[st.clone()], &[p.clone()], VerifyAction::VerifyOnly))?.is_ok();
            // the verifying-and-recovering mode must give the same verdict as plain verification
            let rv = guarded(|| E::verify(&mut [ps.ctx.transcript()], &[st.clone()], &[p.clone()], VerifyAction::RecoverAndVerify))?.is_ok();
            if v != rv {
                return Err(format!(
                    "verdict depends on the verify mode: VerifyOnly {} but RecoverAndVerify {}",
                    if v { "accepts" } else { "rejects" },
                    if rv { "accepts" } else { "rejects" }
                ));
            }
            v
        },
        None => false,
    };
    let rst = ps.ref_stmt();
    let zero = <E::P as Grp>::zero();
    let (holds, strict) = match Proof::parse_layout(bytes) {
        Err(_) => (false, false),
        Ok(pf) => {
            let lenient = matches!(verify_residual_opts(&mut ps.ctx.transcript(), &rst, &pf, false), Ok(r) if r == zero);
            let strict = lenient &&
                matches!(verify_residual_opts(&mut ps.ctx.transcript(), &rst, &pf, true), Ok(r) if r == zero) &&
                (honest_obj.is_some() || Proof::parse_strict(bytes).is_ok());
            (lenient, strict)
        },
    };
    Ok((lib_ok, holds, strict))
}

pub fn mut_oracle<E: Engine>(_ctx: &RunCtx, spec: &MutSpec, log: &mut CaseLog) -> Result<(), String> {
    E::reset_case();
    let t = Triple::<E>::build(&spec.base)?;
    let proof = setup(guarded(|| t.prove()), "the prover refused or panicked on a valid witness (C01's subject)")?;
    let mut bytes = proof.to_bytes();
    let zero_rounds = t.cfg.nm() == 1;
    let mut pm_applied = 0;
    if zero_rounds && !spec.pmuts.is_empty() {
        log.excluded += 1;
    } else {
        for m in &spec.pmuts {
            let nb = m.apply::<E::P>(&bytes, t.params.h_base(), t.cfg.bits);
            if nb != bytes {
                pm_applied += 1;
            }
            bytes = nb;
        }
    }
    let mut ps = PubStatement::<E>::of(&t);
    let mut st_changed = false;
    let mut st_equiv = false;
    for m in &spec.smuts {
        match ps.apply(m) {
            Applied::Changed => st_changed = true,
            Applied::Equivalent => st_equiv = true,
            Applied::Noop => {},
        }
    }
    let st = match ps.statement(None) {
        Ok(s) => s,
        Err(_) => {
            log.label("mut:constructor-refused");
            return Ok(());
        },
    };
    let honest_obj = if pm_applied == 0 { Some(&proof) } else { None };
    let (lib_ok, holds, strict) = verdicts::<E>(&ps, &st, &bytes, honest_obj)?;
    if lib_ok && !holds {
        return Err(format!(
            "verifier ACCEPTS but the reference relation does not hold (proof mutations {:?}, statement mutations {:?})",
            spec.pmuts, spec.smuts
        ));
    }
    if strict && !lib_ok {
        return Err(format!(
            "reference relation holds and no documented refusal applies, but the verifier rejects (proof mutations {:?}, statement mutations {:?})",
            spec.pmuts, spec.smuts
        ));
    }
    if pm_applied == 0 && !st_changed && !lib_ok {
        return Err(format!("{} the unaltered honest triple is rejected (C01's subject)", SKIP));
    }
    // the same triple as a member of a batch next to an honest single-commitment member (so that for aggregates it is the
    // strictly largest member, and in one order it is not the first): a batch is accepted only if the relation holds for
    // every member
    if !holds {
        let obj = match honest_obj {
            Some(p) => Some(p.clone()),
            None => guarded(|| RangeProof::<E::P>::from_bytes(&bytes))?.ok(),
        };
        if let Some(obj) = obj {
            let partner_spec = TripleSpec {
                cfg: Cfg {
                    bits: t.cfg.bits,
                    m: 1,
                    cap: 1,
                    ext: t.cfg.ext,
                },
                seed: crate::gen::SeedSpec::None,
                rng: crate::eng::RngSpec::ChaCha(spec.base.bulk ^ 0xba7c),
                ..spec.base.clone()
            };
            let partner = Triple::<E>::build(&partner_spec)?;
            let pproof = setup(guarded(|| partner.prove()), "the prover refused or panicked on a valid witness (C01's subject)")?;
            for first in [false, true] {
                let (mut ts, sts, proofs) = if first {
                    (vec![ps.ctx.transcript(), partner.transcript()], vec![st.clone(), partner.st.clone()], vec![obj.clone(), pproof.clone()])
                } else {
                    (vec![partner.transcript(), ps.ctx.transcript()], vec![partner.st.clone(), st.clone()], vec![pproof.clone(), obj.clone()])
                };
                if guarded(|| E::verify(&mut ts, &sts, &proofs, VerifyAction::VerifyOnly))?.is_ok() {
                    return Err(format!(
                        "a batch of an honest member and a triple for which the reference relation does not hold is ACCEPTED (that triple {}; its aggregation {}; proof mutations {:?}, statement mutations {:?})",
                        if first { "first" } else { "second" },
                        t.cfg.m,
                        spec.pmuts,
                        spec.smuts
                    ));
                }
            }
            log.extra_evals += 2;
        }
    }
    log.label(format!("engine={}", E::NAME));
    log.label(format!("mut:proof-mutations={}", pm_applied));
    log.label(format!("mut:statement-changed={}", st_changed));
    if st_equiv {
        log.label("mut:promise-None<->Some(0)");
    }
    for m in &spec.pmuts {
        log.label(format!("mut:{}", m.kind()));
    }
    for m in &spec.smuts {
        log.label(format!("mut:{}", m.kind()));
    }
    log.label(format!("mut:verdict={}", if lib_ok { "accept" } else { "reject" }));
    log.labels(t.classes());
    if !holds && (pm_applied > 0 || st_changed) {
        let kinds: Vec<String> = spec.pmuts.iter().map(|m| m.kind()).chain(spec.smuts.iter().map(|m| m.kind())).collect();
        log.nontrivial(&(t.cfg, kinds, spec.base.bulk));
    }
    log.sample(json!({"kind": "mutated", "engine": E::NAME, "cfg": t.cfg, "proof_mutations": spec.pmuts, "statement_mutations": spec.smuts,
        "lib_accepts": lib_ok, "relation_holds": holds}));
    Ok(())
}

// ---------------------------------------------------------------------------------------------------------------------
// (g2) reference prover "proving" false statements: verdict equality

#[derive(Clone, Debug, Serialize, Deserialize)]
pub struct CheatSpec {
    pub base: TripleSpec,
    pub cheat: Cheat,
    pub slot: u16,
}

fn cheat_strategy(cfg: BoxedStrategy<Cfg>) -> impl Strategy<Value = CheatSpec> {
    (
        triple_strategy(cfg),
        healthy_rng_strategy(),
        prop_oneof![
            2 => Just(Cheat::Honest),
            2 => Just(Cheat::DigitTwo),
            2 => Just(Cheat::BadComplement),
            2 => Just(Cheat::OtherValue),
            2 => Just(Cheat::OffByOnePromise),
            2 => Just(Cheat::OtherBlinding),
        ],
        any::<u16>(),
    )
        .prop_map(|(mut base, rng, cheat, slot)| {
            base.rng = rng;
            CheatSpec { base, cheat, slot }
        })
}

pub fn cheat_oracle<E: Engine>(_ctx: &RunCtx, spec: &CheatSpec, log: &mut CaseLog) -> Result<(), String> {
    E::reset_case();
    let t = Triple::<E>::build(&spec.base)?;
    if t.cfg.nm() == 1 {
        log.excluded += 1;
        log.label("excluded:zero-rounds");
        return Ok(());
    }
    let ps = PubStatement::<E>::of(&t);
    let rst = ps.ref_stmt();
    let w = RefWitness {
        values: t.values.clone(),
        blindings: t.blindings.clone(),
    };
    let mut rng = chacha(spec.base.bulk ^ 0xc4ea7);
    let pf = ref_prove(
        &mut t.transcript(),
        &rst,
        &w,
        t.seed.as_ref(),
        &mut rng,
        spec.cheat,
        spec.slot as usize,
    );
    let bytes = pf.encode();
    let st = ps.statement(None)?;
    let (lib_ok, holds, strict) = verdicts::<E>(&ps, &st, &bytes, None)?;
    if lib_ok && !holds {
        return Err(format!("verifier ACCEPTS a reference-prover proof of a false statement ({:?})", spec.cheat));
    }
    if strict && !lib_ok {
        return Err(format!("verifier rejects a reference-prover proof for which the relation holds ({:?})", spec.cheat));
    }
    if spec.cheat == Cheat::Honest && !lib_ok {
        return Err("verifier rejects an honest reference-prover proof".into());
    }
    // a statement edited by hand so that its promise vector is one entry short (the fields are public), and a prover that
    // replays the verifier's transcript for it while doing the algebra as if the LAST commitment were the identity (value 0,
    // blinding 0): that commitment is bound into the transcript, so nothing about the point may go unchecked. The unchanged
    // verifier does not survive this statement (it panics inside the multiscalar multiplication, which C16 does not cover:
    // the statement did not come out of the constructors like this), so "not accepted" is all that is asked.
    if t.cfg.m >= 2 && spec.slot % 3 == 0 {
        let mut short = rst.clone();
        short.promises.pop();
        let mut wz = RefWitness {
            values: t.values.clone(),
            blindings: t.blindings.clone(),
        };
        let last = t.cfg.m - 1;
        wz.values[last] = 0;
        for b in wz.blindings[last].iter_mut() {
            *b = curve25519_dalek::scalar::Scalar::ZERO;
        }
        let forged = ref_prove(&mut t.transcript(), &short, &wz, None, &mut chacha(spec.base.bulk ^ 0xf0), Cheat::Honest, 0);
        let mut st_short = ps.statement(None)?;
        st_short.minimum_value_promises.pop();
        if let Ok(obj) = guarded(|| RangeProof::<E::P>::from_bytes(&forged.encode()))? {
            for act in [VerifyAction::VerifyOnly, VerifyAction::RecoverAndVerify] {
                // a panic counts as "not accepted" here (see above)
                if let Ok(Ok(_)) = guarded(|| E::verify(&mut [ps.ctx.transcript()], &[st_short.clone()], &[obj.clone()], act)) {
                    return Err(format!(
                        "verifier ACCEPTS ({:?}) a statement whose last commitment is never checked: promise vector one entry short, proof made as if commitment {} were the identity",
                        act, last
                    ));
                }
            }
            log.label("cheat:short-promise-vector");
            log.extra_evals += 2;
        }
    }
    log.label(format!("engine={}", E::NAME));
    log.label(format!("cheat:{:?}", spec.cheat));
    log.label(format!("cheat:verdict={}", if lib_ok { "accept" } else { "reject" }));
    log.labels(t.classes());
    if !holds {
        log.nontrivial(&(t.cfg, spec.cheat, spec.slot as usize % t.cfg.m, spec.base.bulk));
    }
    log.sample(json!({"kind": "cheating-prover", "engine": E::NAME, "cfg": t.cfg, "cheat": spec.cheat, "slot": spec.slot as usize % t.cfg.m,
        "lib_accepts": lib_ok, "relation_holds": holds}));
    Ok(())
}


// ---------------------------------------------------------------------------------------------------------------------
// garbage BATCHES over F: the verifier's final result must equal sum_i weight_i x reference residual_i

#[derive(Clone, Debug, Serialize, Deserialize)]
pub struct GarbageBatchSpec {
    pub bits_idx: u8,
    pub ext: usize,
    /// (aggregation log2, capacity log2 above aggregation) per member
    pub members: Vec<(u8, u8)>,
    pub bulk: u64,
    pub ctx: CtxSpec,
    pub terms: u8,
}

fn garbage_batch_strategy() -> impl Strategy<Value = GarbageBatchSpec> {
    (
        0u8..7,
        1usize..=6,
        prop::collection::vec((0u8..=3, 0u8..=2), 2..=4),
        any::<u64>(),
        ctx_strategy(),
        0u8..4,
    )
        .prop_map(|(bits_idx, ext, members, bulk, ctx, terms)| GarbageBatchSpec {
            bits_idx,
            ext,
            members,
            bulk,
            ctx,
            terms,
        })
}

pub fn garbage_batch_oracle(_ctx: &RunCtx, spec: &GarbageBatchSpec, log: &mut CaseLog) -> Result<(), String> {
    F::reset_case();
    let bits = crate::gen::BITS[spec.bits_idx as usize % 7].max(2);
    let mut rng = chacha(spec.bulk);
    let (h, g) = <FP as Grp>::pedersen(spec.ext);
    let mut sts = vec![];
    let mut proofs = vec![];
    let mut ref_res: Vec<FP> = vec![];
    let mut cfgs = vec![];
    for (i, (m_log, c_log)) in spec.members.iter().enumerate() {
        let mut m = 1usize << m_log;
        while bits * m > 256 && m > 1 {
            m /= 2;
        }
        let cap = m << c_log;
        let cfg = Cfg { bits, m, cap, ext: spec.ext };
        let mut pool_g = vec![];
        let mut pool_h = vec![];
        for j in 0..cap {
            pool_g.extend(vec_gens::<FP>(b'G', j as u32, bits));
            pool_h.extend(vec_gens::<FP>(b'H', j as u32, bits));
        }
        let base = 0x10_0000_0000u128 * (i as u128 + 1);
        let mut cnt = 0u128;
        let mut gp = |rng: &mut rand_chacha::ChaCha12Rng| {
            cnt += 1;
            garbage_point(rng, &cfg, spec.terms, &pool_g, &pool_h, base + cnt)
        };
        let commitments: Vec<FP> = (0..m).map(|_| gp(&mut rng)).collect();
        let promises: Vec<Option<u64>> = (0..m)
            .map(|_| match rng.next_u32() % 3 {
                0 => None,
                _ => Some(rng.next_u64() & mask_of(bits)),
            })
            .collect();
        let k = cfg.rounds();
        let marker = 0x7_0000_0000u128 + i as u128;
        let mut b = gp(&mut rng);
        b.add_scaled(&Scalar::ONE, &FP::basis(marker));
        let pf = Proof {
            ext: spec.ext as u8,
            d1: (0..spec.ext).map(|_| rand_scalar(&mut rng).to_bytes()).collect(),
            a: gp(&mut rng).enc(),
            a1: gp(&mut rng).enc(),
            b: b.enc(),
            r1: rand_scalar(&mut rng).to_bytes(),
            s1: rand_scalar(&mut rng).to_bytes(),
            l: (0..k).map(|_| gp(&mut rng).enc()).collect(),
            r: (0..k).map(|_| gp(&mut rng).enc()).collect(),
        };
        let params = F::params(bits, cap, spec.ext).map_err(crate::runner::skip_err)?;
        sts.push(RangeStatement::init(params, commitments.clone(), promises.clone(), None).map_err(crate::runner::skip_err)?);
        proofs.push(RangeProof::<FP>::from_bytes(&pf.encode()).map_err(crate::runner::skip_err)?);
        let rst = Stmt {
            bits,
            h: h.clone(),
            g: g.clone(),
            commitments,
            promises,
        };
        ref_res.push(verify_residual_opts(&mut spec.ctx.transcript(), &rst, &pf, false).map_err(|e| format!("reference refuses a well-formed garbage member: {:?}", e))?);
        cfgs.push(cfg);
    }
    let mut ts: Vec<_> = (0..sts.len()).map(|_| spec.ctx.transcript()).collect();
    fp::msm_log_start();
    let lib = guarded(|| F::verify(&mut ts, &sts, &proofs, VerifyAction::VerifyOnly));
    let msm = fp::msm_log_stop();
    let lib = lib?;
    let res = msm.last().ok_or(format!("{} batch verifier performed no precomputed multiscalar multiplication", INCONCLUSIVE))?;
    if lib.is_ok() {
        return Err("verifier ACCEPTED a batch of garbage proofs".into());
    }
    let mut expect = FP::default();
    for (i, rr) in ref_res.iter().enumerate() {
        let w = -res.coef(0x7_0000_0000u128 + i as u128);
        if w == Scalar::ZERO {
            return Err(format!("the factor of member {} in the batch equation is zero", i));
        }
        expect.add_scaled(&w, rr);
    }
    if &expect != res {
        let keys: std::collections::BTreeSet<u128> = expect.0.keys().chain(res.0.keys()).copied().collect();
        let bad = keys.iter().filter(|k| expect.coef(**k) != res.coef(**k)).count();
        return Err(format!(
            "batch of {} garbage members (aggregation / capacity {:?}): the verifier's final equation differs from sum_i weight_i x reference relation_i on {} coordinates",
            sts.len(),
            cfgs.iter().map(|c| (c.m, c.cap)).collect::<Vec<_>>(),
            bad
        ));
    }
    let mix: std::collections::BTreeSet<(usize, usize)> = cfgs.iter().map(|c| (c.m, c.cap)).collect();
    log.label(format!("garbage-batch:members={}", sts.len()));
    log.label(format!("garbage-batch:distinct-(m,cap)={}", mix.len()));
    log.label(format!("bits={}", bits));
    log.label(format!("ext={}", spec.ext));
    log.nontrivial(&(bits, spec.ext, mix, spec.bulk));
    log.sample(json!({"kind": "garbage-batch", "bits": bits, "ext": spec.ext, "members": cfgs, "residual_coordinates": res.0.len()}));
    Ok(())
}

fn lat<E: Engine>(ctx: &RunCtx) -> Vec<Cfg> {
    let (s, m) = sizes::<E>(ctx);
    lattice(s, m)
}
fn cfgs<E: Engine>(ctx: &RunCtx, fixed: Option<&Cfg>) -> BoxedStrategy<Cfg> {
    let (s, m) = sizes::<E>(ctx);
    match fixed {
        Some(c) => Just(*c).boxed(),
        None => cfg_strategy(s, m),
    }
}

fn mut_sub<E: Engine>(cases: (usize, usize)) -> Sub {
    sub(
        &format!("{}/mutated-verdict", E::NAME),
        lat::<E>,
        cases,
        |ctx: &RunCtx, f: Option<&Cfg>| mut_strategy(cfgs::<E>(ctx, f)),
        mut_oracle::<E>,
    )
}
fn cheat_sub<E: Engine>(cases: (usize, usize)) -> Sub {
    sub(
        &format!("{}/cheating-prover-verdict", E::NAME),
        lat::<E>,
        cases,
        |ctx: &RunCtx, f: Option<&Cfg>| cheat_strategy(cfgs::<E>(ctx, f)),
        cheat_oracle::<E>,
    )
}

pub fn def() -> PropertyDef {
    PropertyDef {
        id: "C02",
        level: "exploration",
        rule: "Three generators. (g3, engine F) shape-correct GARBAGE proofs: random scalars, points = random sparse combinations of h, g_k, \
               G_i, H_i (also beyond bits*m when capacity > m) plus fresh basis ids, random commitments and promises; oracle: the library's final \
               multiscalar result equals weight x the independent reference residual on EVERY coordinate (weight read from a marker planted in B, \
               must be nonzero); plus shape-incorrect variants (rounds +-1, d1 +-1, tag) where both must refuse. (g3b, engine F) BATCHES of 2-4 such garbage proofs with different aggregation / capacity: final result == sum_i weight_i x reference residual_i, every weight nonzero. (g1, R and F) honest proofs with \
               0-2 proof mutation operators and 0-1 statement mutations; (g2, R and F) proofs from the reference prover for false statements \
               (digit 2, bad complement, other value, promise off by one, other blinding). Oracle for g1/g2, two implications: library Ok => \
               reference relation holds; relation holds and no documented refusal applies => library Ok. Non-trivial = reference residual nonzero \
               and (m >= 8 or a non-honest point or a promise > 0 or degree >= 2 or an applied mutation); distinct by case hash."
            .into(),
        assumptions: vec![
            "the reference verifier (refimpl.rs, written from the paper, explicit folding) is the specification of 'the relation'".into(),
            "zero-round proofs (bits*m == 1) cannot be built from bytes (known finding C15); adversarial proofs for that cell are excluded and counted".into(),
            "the residual comparison runs over the free module F, where equality is exact; R contributes verdict comparisons only".into(),
        ],
        exhaustive: false,
        subs: vec![
            sub(
                "F/garbage-residual",
                lat::<F>,
                (20_000, 300_000),
                |ctx: &RunCtx, f: Option<&Cfg>| garbage_strategy(cfgs::<F>(ctx, f)),
                garbage_oracle,
            ),
            sub(
                "F/garbage-batch-residual",
                crate::runner::no_fixed,
                (8000, 100_000),
                |_: &RunCtx, _: Option<&()>| garbage_batch_strategy(),
                garbage_batch_oracle,
            ),
            mut_sub::<F>((12_000, 200_000)),
            mut_sub::<R>((1500, 12_000)),
            cheat_sub::<F>((5000, 60_000)),
            cheat_sub::<R>((800, 6000)),
            crate::props::c03::cancel_sub::<F>((1500, 15_000)),
            // adaptive cancellation with factors observed on earlier runs (the history generator of C08): a batch accepted
            // although no member satisfies the relation is a soundness failure as much as a weighting failure
            sub("F/adaptive-cancellation", crate::runner::no_fixed, (2500, 30_000), |_: &RunCtx, _: Option<&()>| crate::props::c08::hist_strategy(), crate::props::c08::oracle_acceptance_only),
            crate::fuzzdec::corpus_sub("verify"),
        ],
    }
}
