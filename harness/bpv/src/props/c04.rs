//! C04 Fiat-Shamir binding: each challenge depends on everything before it.
use proptest::prelude::*;
use serde::{Deserialize, Serialize};
use serde_json::json;
use tari_bulletproofs_plus::{
    range_proof::{RangeProof, VerifyAction},
    range_statement::RangeStatement,
};

use crate::{
    eng::{Engine, F, R},
    gen::{cfg_strategy, lattice, mask_of, triple_strategy, Cfg, CtxSpec, Triple, TripleSpec, BITS, CTX_LABELS},
    mutate::{fresh_point, pick, Applied, CompEdit, CompHow, PointHow, PromHow, ProofMut, PubStatement, StMut, StPointHow},
    props::{
        c03::{build_member, pool_member_valid, Member, PoolMember},
        c05::frac_of,
    },
    refimpl::{Grp, Proof},
    runner::{guarded, setup, sub, CaseLog, PropertyDef, RunCtx, Sub, Tier, INCONCLUSIVE},
    tapx::{challenges, tapped, tapped_prover},
};

#[derive(Clone, Debug, Serialize, Deserialize)]
pub struct FsSpec {
    pub base: TripleSpec,
    pub rep: u64,
    /// valid members verified in the same batch BEFORE the target (the target's challenges are read from its own slice)
    pub pre: Vec<PoolMember>,
    /// additionally verify an exact copy of the target (same statement, same proof, original context) directly before it
    #[serde(default)]
    pub dup_pre: bool,
}

/// one perturbation: what is changed, and the index of the first challenge drawn after the datum is absorbed
#[derive(Clone, Debug)]
struct Pert {
    name: String,
    first: usize,
    smut: Option<StMut>,
    pmut: Option<ProofMut>,
    /// special statement edits that are not a StMut
    special: Option<Special>,
    /// challenges must stay EQUAL (the None <-> Some(0) equivalence)
    equal: bool,
}
#[derive(Clone, Debug)]
enum Special {
    DoubleAggregation,
    DegreePlus,
    DegreeMinus,
}

fn perturbations(cfg: &Cfg, rounds: usize, ctx: &CtxSpec, promises: &[Option<u64>], rep: u64, with_proof: bool) -> Vec<Pert> {
    let mut v = vec![];
    let st = |name: String, m: StMut| Pert {
        name,
        first: 0,
        smut: Some(m),
        pmut: None,
        special: None,
        equal: false,
    };
    // transcript context
    let other = (ctx.label + 1 + (rep % (CTX_LABELS.len() as u64 - 1)) as u8) % CTX_LABELS.len() as u8;
    v.push(st(
        "context-label".into(),
        StMut::Context(CtxSpec {
            label: other,
            msgs: ctx.msgs.clone(),
        }),
    ));
    v.push(st("context-extra-message".into(), StMut::ContextExtra(rep.to_le_bytes()[..(rep % 5) as usize].to_vec())));
    // generators
    v.push(st("H".into(), StMut::HBase(StPointHow::Fresh(rep ^ 1))));
    v.push(st("H".into(), StMut::HBase(StPointHow::AddH)));
    for k in 0..cfg.ext {
        v.push(st(
            format!("G[{}]", k),
            StMut::GBase {
                k: frac_of(k, cfg.ext),
                how: StPointHow::Fresh(rep ^ (2 + k as u64)),
            },
        ));
    }
    // bit length
    for (i, b) in BITS.iter().enumerate() {
        if *b != cfg.bits && (*b == cfg.bits * 2 || *b * 2 == cfg.bits || i as u64 == rep % 7) {
            v.push(st("bit-length".into(), StMut::BitLength(i as u8)));
        }
    }
    // commitments and promises
    for j in 0..cfg.m {
        let fj = frac_of(j, cfg.m);
        v.push(st(
            format!("commitment[{}]", j.min(3)),
            StMut::Commitment {
                j: fj,
                how: if j % 2 == 0 { StPointHow::Fresh(rep ^ (50 + j as u64)) } else { StPointHow::AddG0 },
            },
        ));
        let p = promises[j].unwrap_or(0);
        // stay inside the bit length so the verifier does not refuse before drawing challenges
        let how = if p < mask_of(cfg.bits) { PromHow::Plus1 } else { PromHow::Minus1 };
        v.push(st(format!("promise[{}]", j.min(3)), StMut::Promise { j: fj, how }));
        // single bit flips of the promise, the top bit of the range included
        for bit in [cfg.bits - 1, (rep as usize >> 4) % cfg.bits] {
            v.push(st(format!("promise[{}]:bit", j.min(3)), StMut::Promise { j: fj, how: PromHow::FlipBitInRange(bit as u8) }));
        }
        let mut eq = st(
            format!("promise[{}]:None<->Some(0)", j.min(3)),
            StMut::Promise {
                j: fj,
                how: if promises[j].is_none() { PromHow::ToSome0 } else { PromHow::ToNone },
            },
        );
        if p == 0 {
            eq.equal = true;
            v.push(eq);
        }
    }
    // the compressed copies that are what the transcript actually absorbs, rewritten by hand (public fields): single bit flips,
    // bit 255 included, and the encoding of another point. Generator copies only count for the first member of a batch (the
    // verifier reads the shared generators from there); the oracle skips them at later positions.
    for j in 0..cfg.m.min(4) {
        let fj = frac_of(j, cfg.m);
        for how in [CompHow::FlipBit(255), CompHow::FlipBit((rep >> (3 + j)) as u8), CompHow::Fresh(rep ^ (0x400 + j as u64))] {
            v.push(st(format!("commitment[{}]:compressed-copy", j.min(3)), StMut::CompressedCopy(CompEdit::Commitment { j: fj, how })));
        }
    }
    for how in [CompHow::FlipBit(255), CompHow::FlipBit((rep >> 11) as u8)] {
        v.push(st("H:compressed-copy".into(), StMut::CompressedCopy(CompEdit::H(how))));
    }
    for k in 0..cfg.ext {
        for how in [CompHow::FlipBit(255), CompHow::FlipBit((rep >> (13 + k)) as u8)] {
            v.push(st(format!("G[{}]:compressed-copy", k), StMut::CompressedCopy(CompEdit::G { k: frac_of(k, cfg.ext), how })));
        }
    }
    // aggregation factor and extension degree
    v.push(Pert {
        name: "aggregation-factor".into(),
        first: 0,
        smut: None,
        pmut: None,
        special: Some(Special::DoubleAggregation),
        equal: false,
    });
    if with_proof {
        if cfg.ext < 6 {
            v.push(Pert {
                name: "extension-degree".into(),
                first: 0,
                smut: None,
                pmut: Some(ProofMut::DegreeResize(true)),
                special: Some(Special::DegreePlus),
                equal: false,
            });
        }
        if cfg.ext > 1 {
            v.push(Pert {
                name: "extension-degree".into(),
                first: 0,
                smut: None,
                pmut: Some(ProofMut::DegreeResize(false)),
                special: Some(Special::DegreeMinus),
                equal: false,
            });
        }
        // prover messages: A, A1, B, L_j, R_j
        let np = 3 + 2 * rounds;
        for i in 0..np {
            let (name, first) = match i {
                0 => ("A".to_string(), 0),
                1 => ("A1".to_string(), 2 + rounds),
                2 => ("B".to_string(), 2 + rounds),
                _ => {
                    let j = (i - 3) / 2;
                    (format!("{}[{}]", if (i - 3) % 2 == 0 { "L" } else { "R" }, j.min(3)), 2 + j)
                },
            };
            for how in [PointHow::Fresh(rep ^ (100 + i as u64)), PointHow::Scaled(rep ^ 9)] {
                v.push(Pert {
                    name: name.clone(),
                    first,
                    smut: None,
                    pmut: Some(ProofMut::Point { pos: frac_of(i, np), how }),
                    special: None,
                    equal: false,
                });
            }
        }
    }
    v
}

fn apply_special<E: Engine>(ps: &mut PubStatement<E>, sp: &Special, rep: u64) {
    match sp {
        Special::DoubleAggregation => {
            let m = ps.commitments.len();
            for j in 0..m {
                ps.commitments.push(fresh_point::<E::P>(rep ^ (900 + j as u64)));
                ps.promises.push(None);
            }
            if ps.cap < 2 * m {
                ps.cap = 2 * m;
            }
        },
        Special::DegreePlus => {
            ps.g.push(fresh_point::<E::P>(rep ^ 777));
            ps.ext += 1;
        },
        Special::DegreeMinus => {
            ps.g.pop();
            ps.ext -= 1;
        },
    }
}

/// challenges drawn for the LAST member of a verification batch
fn verifier_challenges<E: Engine>(
    pre: &[Member<E>],
    st: &RangeStatement<E::P>,
    proof: &RangeProof<E::P>,
    ctx: &CtxSpec,
    pre_counts: usize,
) -> Result<Vec<Vec<u8>>, String> {
    let mut ts: Vec<_> = pre.iter().map(|m| m.ctx.transcript()).collect();
    ts.push(ctx.transcript());
    let mut sts: Vec<_> = pre.iter().map(|m| m.st.clone()).collect();
    sts.push(st.clone());
    let mut proofs: Vec<_> = pre.iter().map(|m| m.proof.clone()).collect();
    proofs.push(proof.clone());
    let (r, ev) = tapped(|| guarded(|| E::verify(&mut ts, &sts, &proofs, VerifyAction::VerifyOnly)));
    r?.ok();
    let all = challenges(&ev);
    Ok(if all.len() >= pre_counts { all[pre_counts..].to_vec() } else { vec![] })
}

pub fn oracle<E: Engine>(_ctx: &RunCtx, spec: &FsSpec, log: &mut CaseLog) -> Result<(), String> {
    E::reset_case();
    // prover runs are compared with one another below, so they need a reproducible stream
    let mut spec = spec.clone();
    if spec.base.rng == crate::eng::RngSpec::Os {
        spec.base.rng = crate::eng::RngSpec::ChaCha(spec.base.bulk);
    }
    let spec = &spec;
    let t = Triple::<E>::build(&spec.base)?;
    let cfg = t.cfg;
    // prover side, base run
    let (proof, pev) = tapped_prover(|| guarded(|| t.prove()));
    let proof = setup(proof, "the prover refused or panicked on a valid witness (C01's subject)")?;
    let prover_base = challenges(&pev);
    let bytes = proof.to_bytes();
    let rounds = Proof::parse_layout(&bytes).map_err(crate::runner::skip_err)?.l.len();
    let expected = 3 + rounds;
    if prover_base.len() != expected {
        return Err(format!("{} prover drew {} challenges, expected {}", INCONCLUSIVE, prover_base.len(), expected));
    }
    let mut pre: Vec<Member<E>> = spec
        .pre
        .iter()
        .map(|pm| build_member::<E>(cfg.bits, cfg.ext, pm, cfg.bits.max(16)))
        .collect::<Result<_, _>>()?;
    if spec.dup_pre {
        pre.push(Member {
            st: t.st.clone(),
            proof: proof.clone(),
            ctx: spec.base.ctx.clone(),
            valid: true,
            mask: None,
            m: cfg.m,
            cap: cfg.cap,
            altered: false,
        });
    }
    let pre_counts: usize = pre
        .iter()
        .map(|m| 3 + Proof::parse_layout(&m.proof.to_bytes()).map(|p| p.l.len()).unwrap_or(0))
        .sum();
    let ps0 = PubStatement::<E>::of(&t);
    // binding to the context, verdict level, at the target's batch position: the batch [valid members.., target under another
    // context] must be refused (whatever the verifier does internally, e.g. re-using work of an identical predecessor)
    {
        let mut other = ps0.ctx.clone();
        other.msgs.push((1, spec.rep.to_le_bytes()[..3].to_vec()));
        let mut ts: Vec<_> = pre.iter().map(|m| m.ctx.transcript()).collect();
        ts.push(other.transcript());
        let mut sts: Vec<_> = pre.iter().map(|m| m.st.clone()).collect();
        sts.push(t.st.clone());
        let mut proofs: Vec<_> = pre.iter().map(|m| m.proof.clone()).collect();
        proofs.push(proof.clone());
        if guarded(|| E::verify(&mut ts, &sts, &proofs, VerifyAction::VerifyOnly))?.is_ok() {
            return Err(format!(
                "a proof verifies under a transcript context other than the one it was created in (batch position {}, preceded by an identical triple: {})",
                pre.len(),
                spec.dup_pre
            ));
        }
    }
    let base = verifier_challenges::<E>(&pre, &t.st, &proof, &ps0.ctx, pre_counts)?;
    if base.len() != expected {
        return Err(format!("{} verifier drew {} challenges for the target, expected {}", INCONCLUSIVE, base.len(), expected));
    }
    // prover and verifier derive the same challenges
    // (prover and verifier deriving different challenges for an honest triple would be a completeness matter, C01; it is
    // not judged here)
    let _ = &prover_base;
    let with_proof = cfg.nm() > 1;
    if !with_proof {
        log.excluded += 1;
    }
    let perts = perturbations(&cfg, rounds, &spec.base.ctx, &t.promises, spec.rep, with_proof);
    let mut done = 0u64;
    // Are the compressed copies what this verifier absorbs? Replace one by the encoding of another point: if no challenge
    // moves, the verifier works from the points (the copies are an unused cache) and rewriting a copy is not a change of any
    // absorbed datum; if the challenges move, every rewriting of a copy has to move them.
    let consults = |edit: CompEdit| -> Result<bool, String> {
        let mut ps = ps0.clone();
        ps.apply(&StMut::CompressedCopy(edit));
        Ok(match ps.statement(t.seed.filter(|_| ps.commitments.len() == 1)) {
            Ok(st) => {
                let got = verifier_challenges::<E>(&pre, &st, &proof, &ps.ctx, pre_counts)?;
                got.len() != base.len() || got.iter().zip(base.iter()).any(|(a, b)| a != b)
            },
            Err(_) => true,
        })
    };
    let consults_commitment_copies = consults(CompEdit::Commitment { j: 0, how: CompHow::Fresh(spec.rep ^ 0x9a9a) })?;
    let consults_generator_copies = pre.is_empty() && consults(CompEdit::H(CompHow::Fresh(spec.rep ^ 0x8b8b)))?;
    for p in &perts {
        let mut ps = ps0.clone();
        match &p.smut {
            Some(StMut::CompressedCopy(CompEdit::H(_))) | Some(StMut::CompressedCopy(CompEdit::G { .. })) if !consults_generator_copies => continue,
            Some(StMut::CompressedCopy(CompEdit::Commitment { .. })) | Some(StMut::CompressedCopy(CompEdit::List(_))) if !consults_commitment_copies => continue,
            _ => {},
        }
        if let Some(m) = &p.smut {
            if matches!(ps.apply(m), Applied::Noop) {
                continue;
            }
        }
        if let Some(sp) = &p.special {
            apply_special::<E>(&mut ps, sp, spec.rep);
        }
        let st = match ps.statement(t.seed.filter(|_| ps.commitments.len() == 1)) {
            Ok(s) => s,
            Err(_) => continue,
        };
        let pr = match &p.pmut {
            Some(m) => {
                let b2 = m.apply::<E::P>(&bytes, t.params.h_base(), cfg.bits);
                if b2 == bytes {
                    continue;
                }
                match guarded(|| RangeProof::<E::P>::from_bytes(&b2))? {
                    Ok(x) => x,
                    Err(_) => continue,
                }
            },
            None => proof.clone(),
        };
        let got = verifier_challenges::<E>(&pre, &st, &pr, &ps.ctx, pre_counts)?;
        if got.len() <= p.first {
            // refused before the first affected challenge was drawn (e.g. inconsistent batch): nothing to compare
            log.label(format!("perturb:{}:refused-early", p.name));
            continue;
        }
        for i in p.first..got.len().min(base.len()) {
            let same = got[i] == base[i];
            if p.equal && !same {
                return Err(format!(
                    "verifier: replacing an absent promise by zero (or back) changed challenge {} ({})",
                    i, p.name
                ));
            }
            if !p.equal && same {
                return Err(format!(
                    "verifier: challenge {} of {} is UNCHANGED after perturbing {} (first challenge drawn after it: {}; batch position {})",
                    i,
                    base.len(),
                    p.name,
                    p.first,
                    pre.len()
                ));
            }
        }
        done += 1;
        log.label(format!("perturb:{}", p.name));
        log.nontrivial(&(p.name.clone(), cfg, pre.len(), spec.rep, done));
        // prover side for statement / context perturbations that keep the witness valid
        if p.pmut.is_none() && p.special.is_none() {
            if let Some(m) = &p.smut {
                if matches!(m, StMut::Context(_) | StMut::ContextExtra(_) | StMut::Promise { .. }) {
                    let ok_witness = ps.promises.iter().zip(t.values.iter()).all(|(pp, v)| pp.unwrap_or(0) <= *v);
                    if ok_witness {
                        let stp = ps.statement(t.seed)?;
                        let (r2, ev2) = tapped_prover(|| guarded(|| E::prove(&mut ps.ctx.transcript(), &stp, &t.w, &mut spec.base.rng.make())));
                        let r2 = r2?.map_err(|e| format!("prover refused after perturbing {}: {:?}", p.name, e))?;
                        let got = challenges(&ev2);
                        for i in 0..got.len().min(prover_base.len()) {
                            let same = got[i] == prover_base[i];
                            if p.equal && !same {
                                return Err(format!("prover: None <-> Some(0) changed challenge {}", i));
                            }
                            if !p.equal && same {
                                return Err(format!("prover: challenge {} is UNCHANGED after perturbing {}", i, p.name));
                            }
                        }
                        if p.equal && r2.to_bytes() != bytes {
                            return Err("prover: None <-> Some(0) changed the proof bytes".into());
                        }
                        log.label(format!("perturb-prover:{}", p.name.split('[').next().unwrap()));
                    }
                }
            }
        }
    }
    // two statements that differ in ONE commitment although both contain a run of equal neighbours:
    // [C0, C1, C1, ..] versus [C0, C0, C1, ..] (a transcript that collapses repeated points absorbs the same sequence)
    if cfg.m >= 3 {
        let mut ps1 = ps0.clone();
        ps1.commitments[2] = ps1.commitments[1].clone();
        let mut ps2 = ps1.clone();
        ps2.commitments[1] = ps2.commitments[0].clone();
        if ps1.commitments[1] != ps2.commitments[1] {
            if let (Ok(st1), Ok(st2)) = (ps1.statement(None), ps2.statement(None)) {
                let c1 = verifier_challenges::<E>(&pre, &st1, &proof, &ps1.ctx, pre_counts)?;
                let c2 = verifier_challenges::<E>(&pre, &st2, &proof, &ps2.ctx, pre_counts)?;
                for i in 0..c1.len().min(c2.len()) {
                    if c1[i] == c2[i] {
                        return Err(format!(
                            "verifier: challenge {} is UNCHANGED between commitment vectors [C0,C1,C1,..] and [C0,C0,C1,..] (they differ in commitment 1; aggregation {})",
                            i, cfg.m
                        ));
                    }
                }
                done += 1;
                log.label("perturb:commitment-in-run-of-equal-neighbours");
            }
        }
    }
    // prover side, commitments: another blinding for commitment j (witness kept consistent) changes every challenge
    for j in (0..cfg.m).take(4) {
        let mut blind = t.blindings.clone();
        blind[j][0] += curve25519_dalek::scalar::Scalar::ONE;
        let cs: Vec<E::P> = t
            .values
            .iter()
            .zip(blind.iter())
            .map(|(v, r)| E::commit(t.params.pc_gens(), &curve25519_dalek::scalar::Scalar::from(*v), r).map_err(crate::runner::skip_err))
            .collect::<Result<_, _>>()?;
        let st2 = RangeStatement::init(t.params.clone(), cs, t.promises.clone(), t.seed).map_err(crate::runner::skip_err)?;
        let w2 = tari_bulletproofs_plus::range_witness::RangeWitness::init(
            t.values
                .iter()
                .zip(blind.iter())
                .map(|(v, r)| tari_bulletproofs_plus::commitment_opening::CommitmentOpening::new(*v, r.clone()))
                .collect(),
        )
        .map_err(crate::runner::skip_err)?;
        let (r2, ev2) = tapped_prover(|| guarded(|| E::prove(&mut t.transcript(), &st2, &w2, &mut spec.base.rng.make())));
        r2?.map_err(|e| format!("prover refused after changing commitment {}: {:?}", j, e))?;
        let got = challenges(&ev2);
        for i in 0..got.len().min(prover_base.len()) {
            if got[i] == prover_base[i] {
                return Err(format!("prover: challenge {} is UNCHANGED after changing commitment {} of {}", i, j, cfg.m));
            }
        }
        done += 1;
        log.label("perturb-prover:commitment");
    }
    // an honest proof re-verified under a perturbed context is rejected (binding to the context it was created in)
    let mut psx = ps0.clone();
    psx.apply(&StMut::ContextExtra(vec![0]));
    if guarded(|| E::verify(&mut [psx.ctx.transcript()], &[t.st.clone()], &[proof.clone()], VerifyAction::VerifyOnly))?.is_ok() {
        return Err("a proof verifies under a transcript context other than the one it was created in".into());
    }
    log.extra_evals += done;
    log.label(format!("engine={}", E::NAME));
    log.label(format!("fs:batch-position={}", pre.len()));
    log.label(format!("fs:preceded-by-own-copy={}", spec.dup_pre));
    log.labels(t.classes());
    log.sample(json!({"engine": E::NAME, "cfg": cfg, "batch_position": pre.len(), "challenges": expected, "perturbations_compared": done,
        "first": perts.iter().take(4).map(|p| p.name.clone()).collect::<Vec<_>>()}));
    Ok(())
}

fn sizes<E: Engine>(ctx: &RunCtx) -> (usize, usize) {
    match (E::IS_F, ctx.tier) {
        (true, Tier::Quick) => (256, 32),
        (true, Tier::Thorough) => (1024, 64),
        (false, Tier::Quick) => (64, 8),
        (false, Tier::Thorough) => (256, 32),
    }
}

fn fs_sub<E: Engine>(cases: (usize, usize)) -> Sub {
    sub(
        &format!("{}/single-datum-perturbation", E::NAME),
        |ctx: &RunCtx| {
            let (s, m) = sizes::<E>(ctx);
            lattice(s, m)
        },
        cases,
        |ctx: &RunCtx, fixed: Option<&Cfg>| {
            let (s, m) = sizes::<E>(ctx);
            let cfg = match fixed {
                Some(c) => Just(*c).boxed(),
                None => cfg_strategy(s, m),
            };
            (
                triple_strategy(cfg),
                any::<u64>(),
                prop_oneof![2 => Just(vec![]), 3 => prop::collection::vec(pool_member_valid(), 1..=2)],
            )
                .prop_map(|(base, rep, pre)| FsSpec {
                    dup_pre: rep % 4 == 0,
                    base,
                    rep,
                    pre,
                })
        },
        oracle::<E>,
    )
}

// ---------------------------------------------------------------------------------------------------------------------
// prover messages far down a LONG (refused) proof: the verifier draws one challenge per L/R pair before it looks at the number of
// pairs, and each of them - and the final one - has to depend on every pair before it

#[derive(Clone, Debug, Serialize, Deserialize)]
pub struct LongProofSpec {
    pub base: TripleSpec,
    /// number of L/R pairs of the garbage proof
    pub rounds: u8,
    /// pair whose L or R is replaced
    pub j: u16,
    pub right: bool,
    pub bulk: u64,
}

pub fn long_proof_oracle<E: Engine>(_ctx: &RunCtx, spec: &LongProofSpec, log: &mut CaseLog) -> Result<(), String> {
    E::reset_case();
    let t = Triple::<E>::build(&spec.base)?;
    let rounds = spec.rounds as usize;
    let bytes = crate::props::c16::garbage_bytes::<E>(spec.rounds, t.cfg.ext as u8, 0, spec.bulk);
    let mut pf = Proof::parse_layout(&bytes).map_err(crate::runner::skip_err)?;
    let j = pick(spec.j, rounds);
    let base_proof = match guarded(|| RangeProof::<E::P>::from_bytes(&bytes))? {
        Ok(p) => p,
        Err(e) => return Err(format!("{} garbage proof does not decode: {:?}", INCONCLUSIVE, e)),
    };
    let other = fresh_point::<E::P>(spec.bulk ^ 0x10f).enc();
    if spec.right {
        pf.r[j] = other;
    } else {
        pf.l[j] = other;
    }
    let altered = match guarded(|| RangeProof::<E::P>::from_bytes(&pf.encode()))? {
        Ok(p) => p,
        Err(e) => return Err(format!("{} altered garbage proof does not decode: {:?}", INCONCLUSIVE, e)),
    };
    let ctx = &spec.base.ctx;
    let base = verifier_challenges::<E>(&[], &t.st, &base_proof, ctx, 0)?;
    let got = verifier_challenges::<E>(&[], &t.st, &altered, ctx, 0)?;
    let first = 2 + j;
    if base.len() <= first {
        // the verifier refused before drawing the challenge that follows pair j: nothing to compare
        log.label("long-proof:refused-before-the-pair");
        return Ok(());
    }
    for i in 0..got.len().min(base.len()) {
        let same = got[i] == base[i];
        if i < first && !same {
            return Err(format!("{} challenge {} changed although only a later message ({}[{}]) was altered", INCONCLUSIVE, i, if spec.right { "R" } else { "L" }, j));
        }
        if i >= first && same {
            return Err(format!(
                "verifier: challenge {} of {} is UNCHANGED after perturbing {}[{}] of a proof with {} L/R pairs (first challenge drawn after it: {})",
                i,
                base.len(),
                if spec.right { "R" } else { "L" },
                j,
                rounds,
                first
            ));
        }
    }
    log.label(format!("engine={}", E::NAME));
    log.label(format!("long-proof:rounds={}", if rounds > 64 { ">64" } else { "<=64" }));
    log.label(format!("long-proof:pair={}", if j >= 64 { ">=64" } else if j >= 32 { "32..63" } else { "<32" }));
    log.label(format!("long-proof:challenges-drawn={}", base.len()));
    log.nontrivial(&(rounds, j, spec.right, t.cfg.bits, t.cfg.m, t.cfg.ext));
    log.sample(json!({"engine": E::NAME, "kind": "long refused proof", "pairs": rounds, "altered": format!("{}[{}]", if spec.right { "R" } else { "L" }, j), "challenges_drawn": base.len()}));
    Ok(())
}

fn long_proof_sub<E: Engine>(cases: (usize, usize)) -> Sub {
    sub(
        &format!("{}/long-refused-proofs", E::NAME),
        crate::runner::no_fixed,
        cases,
        |_: &RunCtx, _: Option<&()>| {
            (
                triple_strategy(cfg_strategy(64, 8)),
                prop_oneof![1 => 10u8..=33, 1 => 60u8..=64, 3 => 65u8..=72],
                // the last pairs are the interesting ones
                prop_oneof![1 => any::<u16>(), 2 => 65000u16..=65535],
                any::<bool>(),
                any::<u64>(),
            )
                .prop_map(|(base, rounds, j, right, bulk)| LongProofSpec { base, rounds, j, right, bulk })
        },
        long_proof_oracle::<E>,
    )
}

pub fn def() -> PropertyDef {
    PropertyDef {
        id: "C04",
        level: "exploration",
        rule: "A case is an honest triple (C01 generator) verified as the last member of a batch of 1-3 (so the target sits at position 0, 1 or 2) \
               with the instrumented merlin copy recording every challenge; the oracle then perturbs ONE absorbed datum at a time - context label, \
               an extra context message, H, each G_k, bit length, aggregation factor (commitments appended), extension degree (generators and d1 \
               resized), each commitment, each promise, A, each L_j, each R_j, A1, B (two replacement values each) - re-runs the verifier and \
               demands that every challenge drawn after the datum differs from the base run; promise None <-> Some(0) must leave all challenges \
               (and, on the prover, the proof bytes) unchanged; context, promise and commitment \
               perturbations are repeated on the prover; a proof must not verify under another context. Non-trivial = a compared perturbation; \
               distinct by (datum, configuration, batch position, case)."
            .into(),
        assumptions: vec![
            "challenges are identified by their order at the merlin boundary (y, z, e_1..e_k, e per member), not by label".into(),
            "vendor/merlin-tap is merlin 3.0.0 with five logging calls added; STROBE code untouched".into(),
            "perturbations the verifier refuses before drawing the affected challenge (inconsistent batch, out-of-range promise) are not compared".into(),
        ],
        exhaustive: false,
        subs: vec![fs_sub::<F>((1500, 20_000)), fs_sub::<R>((200, 2500)), long_proof_sub::<F>((1500, 15_000)), long_proof_sub::<R>((150, 1500))],
    }
}
