//! C10 Mask recovery is keyed by the seed and never changes the verdict.
use curve25519_dalek::scalar::Scalar;
use proptest::prelude::*;
use serde::{Deserialize, Serialize};
use serde_json::json;
use tari_bulletproofs_plus::range_proof::{RangeProof, VerifyAction};

use crate::{
    eng::{action_name, Engine, ACTIONS, F, R},
    gen::{chacha, rand_scalar, some_seed_strategy, triple_strategy, Cfg, SeedSpec, Triple, TripleSpec, BITS},
    mutate::{proof_mut, st_mut, Applied, ProofMut, PubStatement, StMut},
    props::c03::{build_member, verify_members, Member, PoolMember},
    runner::{guarded, setup, SKIP, no_fixed, sub, CaseLog, PropertyDef, RunCtx, Sub},
};

#[derive(Clone, Debug, Serialize, Deserialize, PartialEq, Eq, Hash)]
pub enum OtherSeed {
    FlipBit(u8),
    Plus1,
    Minus1,
    Negated,
    Uniform(u64),
    Zero,
}
fn other_seed() -> impl Strategy<Value = OtherSeed> {
    prop_oneof![
        6 => (0u8..252).prop_map(OtherSeed::FlipBit),
        1 => Just(OtherSeed::Plus1),
        1 => Just(OtherSeed::Minus1),
        1 => Just(OtherSeed::Negated),
        2 => any::<u64>().prop_map(OtherSeed::Uniform),
        1 => Just(OtherSeed::Zero),
    ]
}
impl OtherSeed {
    fn apply(&self, a: &Scalar) -> Scalar {
        match self {
            OtherSeed::FlipBit(i) => {
                let mut b = a.to_bytes();
                b[*i as usize / 8] ^= 1 << (*i % 8);
                Scalar::from_bytes_mod_order(b)
            },
            OtherSeed::Plus1 => a + Scalar::ONE,
            OtherSeed::Minus1 => a - Scalar::ONE,
            OtherSeed::Negated => -a,
            OtherSeed::Uniform(u) => rand_scalar(&mut chacha(*u)),
            OtherSeed::Zero => Scalar::ZERO,
        }
    }
}

#[derive(Clone, Debug, Serialize, Deserialize)]
pub struct KeySpec {
    pub base: TripleSpec,
    pub other: OtherSeed,
    pub pmuts: Vec<ProofMut>,
    pub smuts: Vec<StMut>,
    /// valid members placed before / after the target in a batch
    pub before: Vec<PoolMember>,
    pub after: Vec<PoolMember>,
}

fn key_strategy() -> impl Strategy<Value = KeySpec> {
    let cfg = (0usize..7, 0u8..3, 1usize..=6)
        .prop_map(|(b, c, ext)| Cfg {
            bits: BITS[b],
            m: 1,
            cap: 1 << c,
            ext,
        })
        .boxed();
    (
        triple_strategy(cfg),
        some_seed_strategy(),
        other_seed(),
        prop_oneof![3 => Just(vec![]), 2 => prop::collection::vec(proof_mut(), 1..=1)],
        prop_oneof![4 => Just(vec![]), 1 => prop::collection::vec(st_mut(), 1..=1)],
        prop::collection::vec(crate::props::c03::pool_member_valid(), 0..=2),
        prop::collection::vec(crate::props::c03::pool_member_valid(), 0..=2),
    )
        .prop_map(|(mut base, seed, other, pmuts, smuts, before, after)| {
            base.seed = seed;
            KeySpec {
                base,
                other,
                pmuts,
                smuts,
                before,
                after,
            }
        })
}

pub fn oracle<E: Engine>(_ctx: &RunCtx, spec: &KeySpec, log: &mut CaseLog) -> Result<(), String> {
    E::reset_case();
    let t = Triple::<E>::build(&spec.base)?;
    let cfg = t.cfg;
    let seed_a = t.seed.ok_or("generator bug: no seed")?;
    let seed_b = spec.other.apply(&seed_a);
    let truth = t.blindings[0].clone();
    let proof0 = setup(guarded(|| t.prove()), "the prover refused or panicked on a valid witness (C01's subject)")?;
    // optional alterations
    let mut bytes = proof0.to_bytes();
    let mut altered = false;
    if cfg.nm() > 1 {
        for m in &spec.pmuts {
            let nb = m.apply::<E::P>(&bytes, t.params.h_base(), cfg.bits);
            altered |= nb != bytes;
            bytes = nb;
        }
    }
    let proof = if altered {
        match guarded(|| RangeProof::<E::P>::from_bytes(&bytes))? {
            Ok(p) if bytes[0] as usize == cfg.ext => p,
            _ => {
                altered = false;
                proof0.clone()
            },
        }
    } else {
        proof0.clone()
    };
    let mut ps = PubStatement::<E>::of(&t);
    for m in &spec.smuts {
        if matches!(m, StMut::BitLength(_) | StMut::HBase(_) | StMut::GBase { .. }) {
            continue; // would make a batch inconsistent; covered by C03 / C05
        }
        if matches!(ps.apply(m), Applied::Changed) {
            altered = true;
        }
    }
    let seeds: [(&str, Option<Scalar>); 3] = [("none", None), ("right", Some(seed_a)), ("wrong", Some(seed_b))];
    let before: Vec<Member<E>> = spec
        .before
        .iter()
        .map(|pm| build_member::<E>(cfg.bits, cfg.ext, pm, cfg.bits.max(16)))
        .collect::<Result<_, _>>()?;
    let after: Vec<Member<E>> = spec
        .after
        .iter()
        .map(|pm| build_member::<E>(cfg.bits, cfg.ext, pm, cfg.bits.max(16)))
        .collect::<Result<_, _>>()?;
    let pos = before.len();
    let mut verdict: Option<bool> = None;
    let mut rv_masks: Vec<Option<Option<Vec<Scalar>>>> = vec![None; 3];
    for (si, (sname, seed)) in seeds.iter().enumerate() {
        let st = match ps.statement(*seed) {
            Ok(s) => s,
            Err(_) => {
                log.label("keyed:constructor-refused");
                return Ok(());
            },
        };
        let target = Member::<E> {
            st,
            proof: proof.clone(),
            ctx: ps.ctx.clone(),
            valid: true,
            mask: None,
            m: 1,
            cap: cfg.cap,
            altered,
        };
        let all: Vec<&Member<E>> = before.iter().chain(std::iter::once(&target)).chain(after.iter()).collect();
        for act in ACTIONS {
            let r = verify_members::<E>(&all, act)?;
            match act {
                VerifyAction::RecoverOnly => {
                    // no verdict; but whenever RecoverAndVerify succeeded, RecoverOnly succeeds with identical masks
                    if let Some(rv) = &rv_masks[si] {
                        match &r {
                            Ok(masks) => {
                                if masks.get(pos) != Some(rv) {
                                    return Err(format!(
                                        "RecoverOnly returns a different mask than RecoverAndVerify (seed: {}, batch position {} of {})",
                                        sname,
                                        pos,
                                        all.len()
                                    ));
                                }
                                for (i, m) in all.iter().enumerate() {
                                    if i != pos && masks[i] != m.mask {
                                        return Err(format!("RecoverOnly: mask of neighbouring member {} disturbed", i));
                                    }
                                }
                            },
                            Err(e) => {
                                return Err(format!("RecoverOnly fails on a batch that RecoverAndVerify accepts (seed: {}): {}", sname, e))
                            },
                        }
                    }
                },
                _ => {
                    let ok = r.is_ok();
                    match verdict {
                        None => verdict = Some(ok),
                        Some(v) if v != ok => {
                            return Err(format!(
                                "verdict depends on seed / mode: {} with seed={} mode={} but {} before (altered proof: {}, batch position {} of {})",
                                if ok { "ACCEPT" } else { "reject" },
                                sname,
                                action_name(act),
                                if v { "accept" } else { "REJECT" },
                                altered,
                                pos,
                                all.len()
                            ))
                        },
                        _ => {},
                    }
                    if let (VerifyAction::RecoverAndVerify, Ok(masks)) = (act, &r) {
                        let got = masks[pos].clone();
                        match (*sname, &got) {
                            ("none", None) => {},
                            ("none", Some(_)) => return Err("a mask was returned for a statement without seed".into()),
                            ("right", Some(g)) if !altered => {
                                if *g != truth {
                                    return Err("right seed does not recover the commitment's mask".into());
                                }
                            },
                            ("wrong", Some(g)) => {
                                if seed_b != seed_a && *g == truth {
                                    return Err(format!(
                                        "a DIFFERENT seed ({:?}) recovers the true mask",
                                        spec.other
                                    ));
                                }
                            },
                            (_, None) => return Err(format!("no mask returned with seed={} in RecoverAndVerify", sname)),
                            _ => {},
                        }
                        rv_masks[si] = Some(got);
                        for (i, m) in all.iter().enumerate() {
                            if i != pos && masks[i] != m.mask {
                                return Err(format!("RecoverAndVerify: mask of neighbouring member {} disturbed", i));
                            }
                        }
                    }
                },
            }
        }
    }
    // an unaltered triple is accepted
    if !altered && verdict != Some(true) {
        return Err(format!("{} the unaltered honest triple is rejected (C01's subject)", SKIP));
    }
    let okind = format!("{:?}", spec.other).split('(').next().unwrap().to_string();
    log.label(format!("engine={}", E::NAME));
    log.label(format!("keyed:other-seed={}", okind));
    log.label(format!("keyed:altered={}", altered));
    log.label(format!("keyed:verdict={}", if verdict == Some(true) { "accept" } else { "reject" }));
    log.label(format!("keyed:batch={}", before.len() + after.len() + 1));
    log.label(format!("keyed:seed={}", spec.base.seed.class()));
    log.label(format!("bits={}", cfg.bits));
    log.label(format!("ext={}", cfg.ext));
    log.nontrivial(&(spec.other.clone(), altered, verdict, cfg.bits, cfg.ext, pos, spec.base.bulk));
    log.sample(json!({"engine": E::NAME, "cfg": cfg, "other_seed": spec.other, "altered": altered, "accepted": verdict,
        "batch": before.len() + after.len() + 1, "position": pos}));
    Ok(())
}

fn key_sub<E: Engine>(cases: (usize, usize)) -> Sub {
    sub(
        &format!("{}/seed-keyed-verdict-free", E::NAME),
        no_fixed,
        cases,
        |_: &RunCtx, _: Option<&()>| key_strategy(),
        oracle::<E>,
    )
}

pub fn def() -> PropertyDef {
    let _ = SeedSpec::None;
    PropertyDef {
        id: "C10",
        level: "exploration",
        rule: "A case is a non-aggregated triple proved under seed a (uniform, 0, 1, -1; all bit lengths, degrees 1-6, capacity 1-4), optionally \
               made invalid by one proof mutation and/or one statement mutation, a second seed b derived from a by {one flipped bit at a generated \
               position 0..251, +-1, negation, uniform, 0}, and 0-2 valid neighbouring members before and after it in the batch. The batch is \
               verified with the target statement carrying seed in {none, a, b} in all three modes. Oracle: the accept/reject verdict of \
               VerifyOnly and RecoverAndVerify is identical across the six (seed, mode) combinations; with a valid proof, seed a returns exactly \
               the blinding vector and seed b != a returns Ok with a DIFFERENT vector; whenever RecoverAndVerify is Ok, RecoverOnly is Ok with \
               the identical mask; neighbours' masks are untouched. Non-trivial = every case (each has a wrong seed); distinct by (other-seed \
               kind incl. bit position, altered?, verdict, bits, degree, position, case)."
            .into(),
        assumptions: vec!["RecoverOnly returning Ok for an invalid proof is by design and is not compared".into()],
        exhaustive: false,
        subs: vec![key_sub::<F>((15_000, 200_000)), key_sub::<R>((1200, 10_000))],
    }
}
