//! C03 Batch verification accepts iff every member verifies, at any size and order.
use curve25519_dalek::scalar::Scalar;
use merlin::Transcript;
use proptest::prelude::*;
use rand_core::RngCore;
use serde::{Deserialize, Serialize};
use serde_json::json;
use tari_bulletproofs_plus::{
    range_proof::{RangeProof, VerifyAction},
    range_statement::RangeStatement,
};

use crate::{
    eng::{action_name, Engine, RngSpec, F, R},
    gen::{chacha, ctx_strategy, rng_strategy, seed_strategy, slot_strategy, Cfg, CtxSpec, SeedSpec, SlotSpec, Triple, TripleSpec, BITS},
    mutate::{pick, proof_mut, st_mut, Applied, ProofMut, PubStatement, StMut, StPointHow},
    runner::{guarded, setup, no_fixed, sub, CaseLog, PropertyDef, RunCtx, Sub, Tier},
};

#[derive(Clone, Debug, Serialize, Deserialize)]
pub enum Invalid {
    Proof(ProofMut),
    Statement(StMut),
}

#[derive(Clone, Debug, Serialize, Deserialize)]
pub struct PoolMember {
    pub m_log: u8,
    pub cap_log: u8,
    pub slots: Vec<SlotSpec>,
    pub ctx: CtxSpec,
    pub rng: RngSpec,
    pub seed: SeedSpec,
    pub bulk: u64,
    pub invalid: Option<Invalid>,
    /// when set (and this is not the first pool member): take everything except `invalid` from that earlier pool member,
    /// so that the batch can contain a valid member next to an altered copy of itself
    #[serde(default)]
    pub twin_of: Option<u8>,
}

#[derive(Clone, Debug, Serialize, Deserialize, PartialEq, Eq, Hash)]
pub enum KSel {
    Small(u8),
    Boundary(u8),
    Uniform(u16),
}
pub const BOUNDARIES: [usize; 7] = [255, 256, 257, 511, 512, 513, 1100];

#[derive(Clone, Debug, Serialize, Deserialize, PartialEq, Eq, Hash)]
pub enum PosSpec {
    First,
    Last,
    At(u8),
    Frac(u16),
}
pub const POSITIONS: [usize; 8] = [1, 254, 255, 256, 257, 511, 512, 513];

#[derive(Clone, Debug, Serialize, Deserialize)]
pub struct BatchSpec {
    pub bits_idx: u8,
    pub ext: usize,
    pub pool: Vec<PoolMember>,
    pub ksel: KSel,
    pub seq_seed: u64,
    pub invalid_at: Vec<PosSpec>,
    pub mode: u8,
    pub permute: u64,
}

pub fn pool_member_valid() -> impl Strategy<Value = PoolMember> {
    pool_member().prop_map(|mut m| {
        m.invalid = None;
        m
    })
}

pub fn pool_member() -> impl Strategy<Value = PoolMember> {
    (
        0u8..=3,
        0u8..=2,
        prop::collection::vec(slot_strategy(), 1..=2),
        ctx_strategy(),
        rng_strategy(),
        seed_strategy(),
        any::<u64>(),
        prop_oneof![
            3 => Just(None),
            1 => proof_mut().prop_map(|m| Some(Invalid::Proof(m))),
            1 => st_mut().prop_map(|m| Some(Invalid::Statement(m))),
        ],
    )
        .prop_map(|(m_log, cap_log, slots, ctx, rng, seed, bulk, invalid)| PoolMember {
            m_log,
            cap_log,
            slots,
            ctx,
            rng,
            seed,
            bulk,
            twin_of: if invalid.is_some() && bulk % 3 == 0 { Some((bulk >> 8) as u8) } else { None },
            invalid,
        })
}

fn batch_strategy(max_boundary: usize) -> impl Strategy<Value = BatchSpec> {
    (
        prop_oneof![4 => 0u8..=3, 1 => 4u8..=6],
        1usize..=6,
        prop::collection::vec(pool_member(), 3..=8),
        prop_oneof![
            11 => (1u8..=8).prop_map(KSel::Small),
            6 => (0u8..max_boundary as u8).prop_map(KSel::Boundary),
            3 => (9u16..=700).prop_map(KSel::Uniform),
        ],
        any::<u64>(),
        prop::collection::vec(
            prop_oneof![
                2 => Just(PosSpec::First),
                2 => Just(PosSpec::Last),
                4 => (0u8..POSITIONS.len() as u8).prop_map(PosSpec::At),
                3 => any::<u16>().prop_map(PosSpec::Frac),
            ],
            0..=2,
        ),
        0u8..3,
        any::<u64>(),
    )
        .prop_map(|(bits_idx, ext, pool, ksel, seq_seed, invalid_at, mode, permute)| BatchSpec {
            bits_idx,
            ext,
            pool,
            ksel,
            seq_seed,
            invalid_at,
            mode,
            permute,
        })
}

/// A batch member ready for verification
pub struct Member<E: Engine> {
    pub st: RangeStatement<E::P>,
    pub proof: RangeProof<E::P>,
    pub ctx: CtxSpec,
    pub valid: bool,
    /// expected recovered mask in recovering modes (valid members only)
    pub mask: Option<Vec<Scalar>>,
    pub m: usize,
    pub cap: usize,
    pub altered: bool,
}

pub fn build_member<E: Engine>(bits: usize, ext: usize, pm: &PoolMember, max_nm: usize) -> Result<Member<E>, String> {
    let mut m = 1usize << pm.m_log;
    while bits * m > max_nm && m > 1 {
        m /= 2;
    }
    let mut cap = m << pm.cap_log;
    while bits * cap > 2 * max_nm && cap > m {
        cap /= 2;
    }
    let spec = TripleSpec {
        cfg: Cfg { bits, m, cap, ext },
        slots: pm.slots.clone(),
        ctx: pm.ctx.clone(),
        rng: pm.rng,
        seed: pm.seed,
        bulk: pm.bulk,
    };
    let t = Triple::<E>::build(&spec)?;
    let proof = setup(guarded(|| t.prove()), "the prover refused or panicked on a valid witness (C01's subject)")?;
    let honest_mask = if t.seed.is_some() { Some(t.blindings[0].clone()) } else { None };
    let mut ps = PubStatement::<E>::of(&t);
    let honest = |t: &Triple<E>, proof: RangeProof<E::P>| Member {
        st: t.st.clone(),
        proof,
        ctx: t.spec.ctx.clone(),
        valid: true,
        mask: honest_mask.clone(),
        m,
        cap,
        altered: false,
    };
    match &pm.invalid {
        None => Ok(honest(&t, proof)),
        Some(Invalid::Proof(pmut)) => {
            if t.cfg.nm() == 1 {
                return Ok(honest(&t, proof));
            }
            let bytes = pmut.apply::<E::P>(&proof.to_bytes(), t.params.h_base(), bits);
            let altered = match guarded(|| RangeProof::<E::P>::from_bytes(&bytes))? {
                Ok(p) => p,
                Err(_) => return Ok(honest(&t, proof)),
            };
            // a proof whose degree tag / d1 length no longer matches the statements is simply an invalid member
            let lib_ok = singleton::<E>(&ps.ctx, &t.st, &altered)?;
            Ok(Member {
                st: t.st.clone(),
                proof: altered,
                ctx: t.spec.ctx.clone(),
                valid: lib_ok,
                mask: if lib_ok { honest_mask } else { None },
                m,
                cap,
                altered: true,
            })
        },
        Some(Invalid::Statement(smut)) => {
            // generator / bit-length changes would make the batch inconsistent (shape sub-check); keep the rest
            if matches!(smut, StMut::BitLength(_) | StMut::HBase(_) | StMut::GBase { .. }) {
                return Ok(honest(&t, proof));
            }
            let applied = ps.apply(smut);
            if matches!(applied, Applied::Noop) {
                return Ok(honest(&t, proof));
            }
            let st = match ps.statement(t.seed) {
                Ok(s) => s,
                Err(_) => return Ok(honest(&t, proof)),
            };
            let lib_ok = singleton::<E>(&ps.ctx, &st, &proof)?;
            Ok(Member {
                st,
                proof,
                ctx: ps.ctx.clone(),
                valid: lib_ok,
                mask: if lib_ok { honest_mask } else { None },
                m,
                cap,
                altered: true,
            })
        },
    }
}

/// "verifies on its own": the library's verdict on the single triple (VerifyOnly). Whether that verdict is RIGHT is C02's
/// subject; C03 only relates the batch verdict to the singleton verdicts.
pub fn singleton<E: Engine>(ctx: &CtxSpec, st: &RangeStatement<E::P>, proof: &RangeProof<E::P>) -> Result<bool, String> {
    Ok(guarded(|| E::verify(&mut [ctx.transcript()], &[st.clone()], &[proof.clone()], VerifyAction::VerifyOnly))?.is_ok())
}

pub type Masks = Vec<Option<Vec<Scalar>>>;

pub fn verify_members<E: Engine>(members: &[&Member<E>], action: VerifyAction) -> Result<Result<Masks, String>, String> {
    let mut ts: Vec<Transcript> = members.iter().map(|m| m.ctx.transcript()).collect();
    let sts: Vec<RangeStatement<E::P>> = members.iter().map(|m| m.st.clone()).collect();
    let proofs: Vec<RangeProof<E::P>> = members.iter().map(|m| m.proof.clone()).collect();
    let r = guarded(|| E::verify(&mut ts, &sts, &proofs, action))?;
    Ok(match r {
        Ok(v) => Ok(v
            .into_iter()
            .map(|m| m.map(|m| m.blindings().expect("ExtendedMask::blindings")))
            .collect()),
        Err(e) => Err(format!("{:?}", e)),
    })
}

fn max_nm<E: Engine>(bits: usize, k: usize) -> usize {
    // keep big batches cheap: tiny members when the batch is long
    let cap = if E::IS_F { 256 } else { 128 };
    if k > 64 {
        bits.max(8)
    } else if k > 8 {
        bits.max(32)
    } else {
        bits.max(cap)
    }
}

pub fn batch_oracle<E: Engine>(ctx: &RunCtx, spec: &BatchSpec, log: &mut CaseLog) -> Result<(), String> {
    E::reset_case();
    let k = match spec.ksel {
        KSel::Small(n) => n as usize,
        KSel::Boundary(i) => BOUNDARIES[i as usize % BOUNDARIES.len()],
        KSel::Uniform(n) => n as usize,
    };
    // long batches use small bit lengths (cost bound of the check)
    let mut bits = BITS[spec.bits_idx as usize % BITS.len()];
    if k > 16 && bits > 8 {
        bits = 8;
    }
    let _ = ctx;
    let mut twins: Vec<Option<usize>> = vec![];
    let resolved: Vec<PoolMember> = spec
        .pool
        .iter()
        .enumerate()
        .map(|(i, pm)| match pm.twin_of {
            Some(t) if i > 0 => {
                let b = t as usize % i;
                twins.push(Some(b));
                PoolMember {
                    invalid: pm.invalid.clone(),
                    twin_of: None,
                    ..spec.pool[b].clone()
                }
            },
            _ => {
                twins.push(None);
                pm.clone()
            },
        })
        .collect();
    let pool: Vec<Member<E>> = resolved
        .iter()
        .map(|pm| build_member::<E>(bits, spec.ext, pm, max_nm::<E>(bits, k)))
        .collect::<Result<_, _>>()?;
    let valid_idx: Vec<usize> = (0..pool.len()).filter(|i| pool[*i].valid).collect();
    let invalid_idx: Vec<usize> = (0..pool.len()).filter(|i| !pool[*i].valid).collect();
    if valid_idx.is_empty() {
        log.label("batch:no-valid-member");
        return Ok(());
    }
    let mut rng = chacha(spec.seq_seed);
    let mut seq: Vec<usize> = (0..k).map(|_| valid_idx[(rng.next_u32() as usize) % valid_idx.len()]).collect();
    // make sure at least two distinct freshly proved members appear when possible
    if k >= 2 && valid_idx.len() >= 2 {
        seq[0] = valid_idx[0];
        seq[k - 1] = valid_idx[1];
    }
    let mut inv_positions = vec![];
    if !invalid_idx.is_empty() {
        for (n, p) in spec.invalid_at.iter().enumerate() {
            let pos = match p {
                PosSpec::First => 0,
                PosSpec::Last => k - 1,
                PosSpec::At(i) => POSITIONS[*i as usize % POSITIONS.len()],
                PosSpec::Frac(f) => pick(*f, k),
            };
            if pos < k {
                let inv = invalid_idx[n % invalid_idx.len()];
                seq[pos] = inv;
                inv_positions.push(pos);
                // an altered copy directly after (or before) the valid member it was derived from
                if let Some(b) = twins[inv] {
                    if pool[b].valid {
                        if pos >= 1 && !inv_positions.contains(&(pos - 1)) {
                            seq[pos - 1] = b;
                        } else if pos + 1 < k && !inv_positions.contains(&(pos + 1)) {
                            seq[pos + 1] = b;
                        }
                    }
                }
            }
        }
    }
    let members: Vec<&Member<E>> = seq.iter().map(|i| &pool[*i]).collect();
    let all_valid = members.iter().all(|m| m.valid);
    let action = [VerifyAction::VerifyOnly, VerifyAction::RecoverAndVerify, VerifyAction::RecoverOnly][spec.mode as usize % 3];
    let res = verify_members::<E>(&members, action)?;
    let check_masks = |masks: &Masks, members: &[&Member<E>], what: &str| -> Result<(), String> {
        if masks.len() != members.len() {
            return Err(format!("{}: {} results returned for a batch of {}", what, masks.len(), members.len()));
        }
        for (i, (got, m)) in masks.iter().zip(members.iter()).enumerate() {
            let want = if action == VerifyAction::VerifyOnly { None } else { m.mask.clone() };
            if *got != want {
                return Err(format!(
                    "{}: result {} of {} does not belong to member {} (expected mask present: {}, got present: {})",
                    what,
                    i,
                    members.len(),
                    i,
                    want.is_some(),
                    got.is_some()
                ));
            }
        }
        Ok(())
    };
    if action == VerifyAction::RecoverOnly {
        // no verdict in this mode; only length / alignment when every member is valid
        if all_valid {
            match &res {
                Ok(masks) => check_masks(masks, &members, "RecoverOnly")?,
                Err(e) => return Err(format!("RecoverOnly refused an all-valid batch of {}: {}", k, e)),
            }
        }
    } else {
        match (&res, all_valid) {
            (Ok(masks), true) => check_masks(masks, &members, action_name(action))?,
            (Ok(_), false) => {
                return Err(format!(
                    "batch of {} ACCEPTED in {} although member(s) at position(s) {:?} do not verify on their own",
                    k,
                    action_name(action),
                    inv_positions
                ))
            },
            (Err(e), true) => {
                return Err(format!(
                    "batch of {} rejected in {} although every member verifies on its own: {}",
                    k,
                    action_name(action),
                    e
                ))
            },
            (Err(_), false) => {},
        }
        // permutation invariance (bounded size)
        if k >= 2 && k <= 300 {
            let mut perm: Vec<usize> = (0..k).collect();
            let mut prng = chacha(spec.permute);
            for i in (1..k).rev() {
                perm.swap(i, (prng.next_u32() as usize) % (i + 1));
            }
            let pm: Vec<&Member<E>> = perm.iter().map(|i| members[*i]).collect();
            let res2 = verify_members::<E>(&pm, action)?;
            match (&res, &res2) {
                (Ok(_), Ok(m2)) => check_masks(m2, &pm, "permuted batch")?,
                (Err(_), Err(_)) => {},
                _ => {
                    return Err(format!(
                        "verdict changes under permutation of the batch: original ok = {}, permuted ok = {}",
                        res.is_ok(),
                        res2.is_ok()
                    ))
                },
            }
        }
    }
    let kclass = match k {
        1 => "k=1",
        2..=8 => "k=2-8",
        9..=254 => "k=9-254",
        255..=257 => "k=255-257",
        258..=510 => "k=258-510",
        511..=513 => "k=511-513",
        _ => "k>513",
    };
    let inv_class = if all_valid {
        "all-valid".to_string()
    } else {
        let mx = *inv_positions.iter().max().unwrap_or(&0);
        format!("invalid@{}", if mx == 0 { "first" } else if mx >= 512 { ">=512" } else if mx >= 256 { "256-511" } else { "<256" })
    };
    let mix: std::collections::BTreeSet<(usize, usize)> = members.iter().map(|m| (m.m, m.cap)).collect();
    log.label(format!("engine={}", E::NAME));
    log.label(format!("batch:{}", kclass));
    log.label(format!("batch:{}", inv_class));
    log.label(format!("batch:mode={}", action_name(action)));
    log.label(format!("batch:distinct-(m,cap)={}", mix.len().min(4)));
    log.label(format!("bits={}", bits));
    log.label(format!("ext={}", spec.ext));
    if k >= 2 && (!all_valid || k > 256 || mix.len() >= 2) {
        log.nontrivial(&(kclass, inv_class.clone(), mix.len().min(4), spec.mode % 3, bits, spec.ext, k));
    }
    log.sample(json!({"engine": E::NAME, "k": k, "bits": bits, "ext": spec.ext, "mode": action_name(action), "pool": pool.len(),
        "invalid_positions": inv_positions, "mixture": mix, "accepted": res.is_ok()}));
    Ok(())
}

// ---------------------------------------------------------------------------------------------------------------------
// malformed batches: empty, ragged sequences, a member that disagrees on bit length / degree / Pedersen generators

#[derive(Clone, Debug, Serialize, Deserialize, PartialEq, Eq, Hash)]
pub enum BadShape {
    Empty,
    TranscriptsShort,
    TranscriptsLong,
    StatementsShort,
    ProofsShort,
    OtherBits,
    OtherDegree,
    OtherH,
    OtherG,
    /// control: a well-formed batch of the same size must be accepted
    Control,
}

#[derive(Clone, Debug, Serialize, Deserialize)]
pub struct ShapeSpec {
    pub bits_idx: u8,
    pub ext: usize,
    pub base: PoolMember,
    pub odd: PoolMember,
    pub shape: BadShape,
    pub k: u16,
    pub pos: PosSpec,
    pub mode: u8,
}

fn shape_strategy(max_k: u16) -> impl Strategy<Value = ShapeSpec> {
    (
        0u8..=3,
        1usize..=6,
        pool_member(),
        pool_member(),
        prop_oneof![
            Just(BadShape::Empty),
            Just(BadShape::TranscriptsShort),
            Just(BadShape::TranscriptsLong),
            Just(BadShape::StatementsShort),
            Just(BadShape::ProofsShort),
            Just(BadShape::OtherBits),
            Just(BadShape::OtherBits),
            Just(BadShape::OtherDegree),
            Just(BadShape::OtherDegree),
            Just(BadShape::OtherH),
            Just(BadShape::OtherH),
            Just(BadShape::OtherG),
            Just(BadShape::OtherG),
            Just(BadShape::Control),
        ],
        prop_oneof![6 => 1u16..=6, 1 => 250u16..=260, 3 => prop::sample::select(vec![255u16, 256, 257, 258]), 1 => 505u16..=max_k, 2 => prop::sample::select(vec![511u16, 512, 513])],
        prop_oneof![
            Just(PosSpec::First),
            Just(PosSpec::Last),
            (0u8..POSITIONS.len() as u8).prop_map(PosSpec::At),
            any::<u16>().prop_map(PosSpec::Frac)
        ],
        0u8..3,
    )
        .prop_map(|(bits_idx, ext, mut base, mut odd, shape, k, pos, mode)| {
            base.invalid = None;
            odd.invalid = None;
            ShapeSpec {
                bits_idx,
                ext,
                base,
                odd,
                shape,
                k,
                pos,
                mode,
            }
        })
}

pub fn shape_oracle<E: Engine>(_ctx: &RunCtx, spec: &ShapeSpec, log: &mut CaseLog) -> Result<(), String> {
    E::reset_case();
    let bits = BITS[spec.bits_idx as usize % 4];
    let k = (spec.k as usize).max(1);
    let base = build_member::<E>(bits, spec.ext, &spec.base, bits.max(8))?;
    let action = [VerifyAction::VerifyOnly, VerifyAction::RecoverAndVerify, VerifyAction::RecoverOnly][spec.mode as usize % 3];
    let pos = match spec.pos {
        PosSpec::First => 0,
        PosSpec::Last => k - 1,
        PosSpec::At(i) => POSITIONS[i as usize % POSITIONS.len()].min(k - 1),
        PosSpec::Frac(f) => pick(f, k),
    };
    let mut ts: Vec<Transcript> = (0..k).map(|_| base.ctx.transcript()).collect();
    let mut sts: Vec<RangeStatement<E::P>> = (0..k).map(|_| base.st.clone()).collect();
    let mut proofs: Vec<RangeProof<E::P>> = (0..k).map(|_| base.proof.clone()).collect();
    let mut expect_err = true;
    match spec.shape {
        BadShape::Empty => {
            ts.clear();
            sts.clear();
            proofs.clear();
        },
        BadShape::TranscriptsShort => {
            ts.pop();
        },
        BadShape::TranscriptsLong => ts.push(base.ctx.transcript()),
        BadShape::StatementsShort => {
            sts.pop();
        },
        BadShape::ProofsShort => {
            proofs.pop();
        },
        BadShape::Control => expect_err = false,
        BadShape::OtherBits | BadShape::OtherDegree | BadShape::OtherH | BadShape::OtherG => {
            if k < 2 {
                // a single member cannot disagree with itself
                expect_err = false;
            } else {
                // a member that is perfectly valid on its own, but under other parameters
                let (obits, oext) = match spec.shape {
                    BadShape::OtherBits => (if bits == 1 { 2 } else { bits / 2 }, spec.ext),
                    BadShape::OtherDegree => (bits, if spec.ext == 6 { 5 } else { spec.ext + 1 }),
                    _ => (bits, spec.ext),
                };
                let odd_spec = TripleSpec {
                    cfg: Cfg {
                        bits: obits,
                        m: 1 << (spec.odd.m_log % 3),
                        cap: 1 << (spec.odd.m_log % 3),
                        ext: oext,
                    },
                    slots: spec.odd.slots.clone(),
                    ctx: spec.odd.ctx.clone(),
                    rng: spec.odd.rng,
                    seed: SeedSpec::None,
                    bulk: spec.odd.bulk,
                };
                let (st, proof, ctxs) = match spec.shape {
                    BadShape::OtherH | BadShape::OtherG => {
                        // prove under substituted Pedersen generators so that the member verifies on its own
                        let t0 = Triple::<E>::build(&odd_spec)?;
                        let mut ps = PubStatement::<E>::of(&t0);
                        let how = StPointHow::Fresh(spec.odd.bulk);
                        if spec.shape == BadShape::OtherH {
                            ps.apply(&StMut::HBase(how));
                        } else {
                            ps.apply(&StMut::GBase {
                                k: spec.odd.bulk as u16,
                                how,
                            });
                        }
                        let pc = ps.pedersen();
                        ps.commitments = t0
                            .values
                            .iter()
                            .zip(t0.blindings.iter())
                            .map(|(v, r)| E::commit(&pc, &Scalar::from(*v), r).map_err(crate::runner::skip_err))
                            .collect::<Result<_, _>>()?;
                        let st = ps.statement(None)?;
                        let proof = setup(
                            guarded(|| E::prove(&mut ps.ctx.transcript(), &st, &t0.w, &mut odd_spec.rng.make())),
                            "the prover refused or panicked under substituted generators (C01's subject)",
                        )?;
                        (st, proof, ps.ctx.clone())
                    },
                    _ => {
                        let t0 = Triple::<E>::build(&odd_spec)?;
                        let proof = guarded(|| t0.prove())?.map_err(crate::runner::skip_err)?;
                        (t0.st.clone(), proof, t0.spec.ctx.clone())
                    },
                };
                // sanity: valid alone
                let alone = guarded(|| E::verify(&mut [ctxs.transcript()], &[st.clone()], &[proof.clone()], VerifyAction::VerifyOnly))?;
                if alone.is_err() {
                    return Err(format!("odd member does not verify on its own: {:?}", alone.err()));
                }
                ts[pos] = ctxs.transcript();
                sts[pos] = st;
                proofs[pos] = proof;
            }
        },
    }
    let r = guarded(|| E::verify(&mut ts, &sts, &proofs, action))?;
    if expect_err && r.is_ok() {
        return Err(format!(
            "malformed batch ({:?}, k = {}, odd member at {}) was ACCEPTED in mode {}",
            spec.shape,
            k,
            pos,
            action_name(action)
        ));
    }
    if !expect_err {
        match &r {
            Ok(v) if v.len() == sts.len() => {},
            Ok(v) => return Err(format!("control batch of {} returned {} results", sts.len(), v.len())),
            Err(e) => return Err(format!("well-formed control batch of {} rejected: {:?}", k, e)),
        }
    }
    log.label(format!("engine={}", E::NAME));
    log.label(format!("shape:{:?}", spec.shape));
    log.label(format!("shape:pos={}", if pos >= 256 { ">=256" } else { "<256" }));
    log.label(format!("shape:mode={}", action_name(action)));
    log.nontrivial(&(spec.shape.clone(), pos >= 256, k > 256, spec.mode % 3, bits, spec.ext));
    log.sample(json!({"engine": E::NAME, "shape": spec.shape, "k": k, "pos": pos, "mode": action_name(action), "bits": bits, "ext": spec.ext}));
    Ok(())
}

fn batch_sub<E: Engine>(cases: (usize, usize)) -> Sub {
    sub(
        &format!("{}/batch-iff-members", E::NAME),
        no_fixed,
        cases,
        |ctx: &RunCtx, _: Option<&()>| {
            let nb = match (E::IS_F, ctx.tier) {
                (true, _) => 7,
                (false, Tier::Quick) => 3,
                (false, Tier::Thorough) => 6,
            };
            batch_strategy(nb)
        },
        batch_oracle::<E>,
    )
}
fn shape_sub<E: Engine>(cases: (usize, usize)) -> Sub {
    sub(
        &format!("{}/malformed-batches", E::NAME),
        no_fixed,
        cases,
        |ctx: &RunCtx, _: Option<&()>| shape_strategy(if E::IS_F || ctx.tier == Tier::Thorough { 520 } else { 506 }),
        shape_oracle::<E>,
    )
}

pub fn def() -> PropertyDef {
    PropertyDef {
        id: "C03",
        level: "exploration",
        rule: "A case is a pool of 3-8 members sharing bit length and degree (aggregation 1-8, capacity m..4m, with/without seed, contexts, RNG \
               models; some made individually invalid by one proof or statement mutation, validity decided by the library's own singleton verification) and a batch = sequence of pool indices of length k in {1..8} u {255,256,257,511,512,513,1100} \
               u uniform 9..700 with invalid members placed at generated positions (first, last, 254..257, 511..513, random), a verify mode and a \
               permutation. Oracle: Ok <=> every member valid; on Ok exactly k results, result i == mask expected for member i; verdict and masks \
               invariant under the permutation. Second generator: malformed batches (empty, ragged sequences, one individually valid member of \
               other bit length / degree / h / g_k at any position incl. >= 256) must be refused. Third generator: batches of 2-5 valid members where two (or three) members get shifts of one d1 coordinate that sum to zero: none verifies alone, the batch must be refused. Fourth generator (engine F): C08's adaptive histories - offsets on d1[k] of two members (or of both copies of a repeated member and a third member) computed from the factors with which unit shifts entered the final equation on EARLIER RUNS of the same batch, or assumed equal; a batch the library accepts although it rejects one of the altered members alone breaks the equivalence. Non-trivial = k >= 2 and (an invalid member \
               present or k > 256 or >= 2 distinct (m, capacity)); distinct by (k class, invalid-position class, mixture, mode, bits, degree, k)."
            .into(),
        assumptions: vec![
            "members are re-used by index inside long batches (legitimate input) and are at most 8-bit when k > 64, a cost bound of the check".into(),
            "RecoverOnly is only checked for length / alignment and for refusing malformed batches (it gives no verdict by design)".into(),
        ],
        exhaustive: false,
        subs: vec![
            batch_sub::<F>((4000, 40_000)),
            batch_sub::<R>((400, 4000)),
            shape_sub::<F>((2500, 25_000)),
            shape_sub::<R>((300, 3000)),
            cancel_sub::<F>((3000, 30_000)),
            cancel_sub::<R>((300, 3000)),
            // offsets computed from the combination factors observed on an earlier run (C08's history generator), judged here only
            // for the equivalence: accepted as a batch although the library rejects an altered member alone
            sub("F/adaptive-cancellation", no_fixed, (2000, 25_000), |_: &RunCtx, _: Option<&()>| crate::props::c08::hist_strategy(), crate::props::c08::oracle_iff_only),
        ],
    }
}

// ---------------------------------------------------------------------------------------------------------------------
// defects chosen to cancel: +delta on d1[k] of one member, -delta on another (or three shifts summing to zero)

#[derive(Clone, Debug, Serialize, Deserialize)]
pub struct CancelSpec {
    pub bits_idx: u8,
    pub ext: usize,
    pub members: Vec<PoolMember>,
    pub i: u16,
    pub j: u16,
    pub l: u16,
    pub three: bool,
    pub coord: u16,
    pub delta: u64,
    pub delta2: u64,
    pub mode: bool,
}

pub fn cancel_strategy() -> impl Strategy<Value = CancelSpec> {
    (
        1u8..=4,
        1usize..=6,
        prop::collection::vec(pool_member(), 2..=5),
        (any::<u16>(), any::<u16>(), any::<u16>(), any::<bool>()),
        any::<u16>(),
        prop_oneof![Just(1u64), any::<u64>()],
        any::<u64>(),
        any::<bool>(),
    )
        .prop_map(|(bits_idx, ext, mut members, (i, j, l, three), coord, delta, delta2, mode)| {
            for m in members.iter_mut() {
                m.invalid = None;
            }
            CancelSpec {
                bits_idx,
                ext,
                members,
                i,
                j,
                l,
                three,
                coord,
                delta,
                delta2,
                mode,
            }
        })
}

fn shift_d1<E: Engine>(m: &mut Member<E>, coord: usize, delta: Scalar) -> Result<(), String> {
    use crate::refimpl::Proof;
    let mut pf = Proof::parse_layout(&m.proof.to_bytes()).map_err(crate::runner::skip_err)?;
    let c = coord % pf.d1.len();
    pf.d1[c] = (Scalar::from_bytes_mod_order(pf.d1[c]) + delta).to_bytes();
    m.proof = RangeProof::<E::P>::from_bytes(&pf.encode()).map_err(|e| format!("re-decode: {:?}", e))?;
    m.valid = false;
    m.mask = None;
    Ok(())
}

pub fn cancel_oracle<E: Engine>(_ctx: &RunCtx, spec: &CancelSpec, log: &mut CaseLog) -> Result<(), String> {
    E::reset_case();
    let bits = BITS[spec.bits_idx as usize % BITS.len()].max(2);
    let mut ms: Vec<Member<E>> = spec
        .members
        .iter()
        .map(|pm| build_member::<E>(bits, spec.ext, pm, bits.max(32)))
        .collect::<Result<_, _>>()?;
    let n = ms.len();
    let i = pick(spec.i, n);
    let mut j = pick(spec.j, n);
    if j == i {
        j = (j + 1) % n;
    }
    let d1 = Scalar::from(spec.delta.max(1));
    let d2 = Scalar::from(spec.delta2 | 1);
    let coord = spec.coord as usize;
    let mut shifted = vec![i, j];
    if spec.three && n >= 3 {
        let mut l = pick(spec.l, n);
        while l == i || l == j {
            l = (l + 1) % n;
        }
        shift_d1(&mut ms[i], coord, d1)?;
        shift_d1(&mut ms[j], coord, d2)?;
        shift_d1(&mut ms[l], coord, -(d1 + d2))?;
        shifted.push(l);
    } else {
        shift_d1(&mut ms[i], coord, d1)?;
        shift_d1(&mut ms[j], coord, -d1)?;
    }
    let action = if spec.mode { VerifyAction::VerifyOnly } else { VerifyAction::RecoverAndVerify };
    // each shifted member is invalid on its own
    for &x in &shifted {
        if verify_members::<E>(&[&ms[x]], action)?.is_ok() {
            return Err(format!("member with d1[{}] shifted verifies on its own", coord % spec.ext));
        }
    }
    let refs: Vec<&Member<E>> = ms.iter().collect();
    if verify_members::<E>(&refs, action)?.is_ok() {
        return Err(format!(
            "batch of {} ACCEPTED in {} although members {:?} carry equal-and-opposite shifts of d1[{}] and none of them verifies alone",
            n,
            action_name(action),
            shifted,
            coord % spec.ext
        ));
    }
    log.label(format!("engine={}", E::NAME));
    log.label(format!("cancel:members={} shifted={}", n, shifted.len()));
    log.label(format!("cancel:mode={}", action_name(action)));
    log.nontrivial(&(n, shifted.clone(), coord % spec.ext, bits, spec.ext, spec.mode));
    log.sample(json!({"engine": E::NAME, "kind": "cancelling-defects", "members": n, "shifted": shifted, "coord": coord % spec.ext, "bits": bits,
        "ext": spec.ext, "mode": action_name(action)}));
    Ok(())
}

pub fn cancel_sub<E: Engine>(cases: (usize, usize)) -> Sub {
    sub(
        &format!("{}/cancelling-defects", E::NAME),
        no_fixed,
        cases,
        |_: &RunCtx, _: Option<&()>| cancel_strategy(),
        cancel_oracle::<E>,
    )
}
