//! C15 Proof encoding is a canonical bijection with an exact acceptance set.
use proptest::prelude::*;
use rand_core::RngCore;
use serde::{Deserialize, Serialize};
use serde_json::json;
use tari_bulletproofs_plus::range_proof::RangeProof;

use crate::{
    eng::{Engine, F, R},
    gen::{cfg_strategy, chacha, lattice, rand_scalar, triple_strategy, Cfg, Triple, TripleSpec},
    refimpl::{Proof, ELL},
    runner::{guarded, setup, no_fixed, sub, CaseLog, PropertyDef, RunCtx, Sub, Tier},
};

#[derive(Clone, Debug, Serialize, Deserialize)]
pub struct StrSpec {
    pub first: u8,
    pub pairs: u8,
    /// element count = 5 + d + 2*pairs + offset
    pub offset: i8,
    pub trailing: u8,
    /// class per scalar slot (d1.., r1, s1), cycled
    pub scalars: Vec<u8>,
    pub points: u8,
    pub bulk: u64,
}

pub const SCLASS: [&str; 10] = ["uniform", "zero", "l-1", "l", "l+1", "2^255-1", "high-bit", "all-ff", "l+limb-delta", "l-limb-delta"];

fn str_strategy() -> impl Strategy<Value = StrSpec> {
    (
        prop_oneof![12 => 1u8..=6, 2 => Just(0u8), 2 => Just(7u8), 1 => Just(8u8), 1 => Just(255u8), 1 => any::<u8>()],
        prop_oneof![10 => 0u8..=6, 2 => 7u8..=40, 1 => Just(70u8), 2 => 126u8..=131, 1 => 250u8..=255],
        prop_oneof![6 => Just(0i8), 1 => Just(-2i8), 2 => Just(-1i8), 2 => Just(1i8), 1 => Just(2i8)],
        prop_oneof![6 => Just(0u8), 2 => 1u8..=33],
        prop::collection::vec(prop_oneof![8 => Just(0u8), 1 => Just(1u8), 1 => Just(2u8), 1 => Just(3u8), 1 => Just(4u8), 1 => Just(5u8), 1 => Just(6u8), 1 => Just(7u8), 2 => Just(8u8), 1 => Just(9u8)], 1..=8),
        0u8..4,
        any::<u64>(),
    )
        .prop_map(|(first, pairs, offset, trailing, scalars, points, bulk)| StrSpec {
            first,
            pairs,
            offset,
            trailing,
            scalars,
            points,
            bulk,
        })
}

fn scalar_bytes(class: u8, rng: &mut impl RngCore) -> [u8; 32] {
    match class {
        0 => rand_scalar(rng).to_bytes(),
        1 => [0u8; 32],
        2 => {
            let mut b = ELL;
            b[0] -= 1;
            b
        },
        3 => ELL,
        4 => {
            let mut b = ELL;
            b[0] += 1;
            b
        },
        5 => {
            let mut b = [0xffu8; 32];
            b[31] = 0x7f;
            b
        },
        6 => {
            let mut b = rand_scalar(rng).to_bytes();
            b[31] |= 0x80;
            b
        },
        7 => [0xff; 32],
        c => {
            // l plus / minus a random delta that touches one to three 64-bit limbs (and borrows / carries between them)
            let limbs = 1 + (rng.next_u32() % 3) as usize;
            let mut d = [0u8; 32];
            rng.fill_bytes(&mut d[..8 * limbs]);
            if rng.next_u32() % 2 == 0 {
                // a delta of the form 2^(64k) - small produces borrows across limbs
                let small = (rng.next_u32() % 4) as u8;
                d = [0u8; 32];
                d[8 * limbs] = 1;
                d = sub256(&d, &{
                    let mut s = [0u8; 32];
                    s[0] = small;
                    s
                });
            }
            if c == 8 {
                add256(&ELL, &d)
            } else {
                sub256(&ELL, &d)
            }
        },
    }
}

fn add256(a: &[u8; 32], b: &[u8; 32]) -> [u8; 32] {
    let mut r = [0u8; 32];
    let mut c = 0u16;
    for i in 0..32 {
        let s = a[i] as u16 + b[i] as u16 + c;
        r[i] = s as u8;
        c = s >> 8;
    }
    r
}
fn sub256(a: &[u8; 32], b: &[u8; 32]) -> [u8; 32] {
    let mut r = [0u8; 32];
    let mut c = 0i16;
    for i in 0..32 {
        let s = a[i] as i16 - b[i] as i16 - c;
        r[i] = s as u8;
        c = if s < 0 { 1 } else { 0 };
    }
    r
}

pub fn build_string(spec: &StrSpec) -> (Vec<u8>, bool, bool) {
    let mut rng = chacha(spec.bulk);
    let d = if (1..=6).contains(&spec.first) { spec.first as usize } else { 1 + (spec.first as usize % 6) };
    let count = (5 + d + 2 * spec.pairs as usize) as i64 + spec.offset as i64;
    let count = count.max(0) as usize;
    let mut v = vec![spec.first];
    let mut noncanon = false;
    for i in 0..count {
        let is_scalar = i < d || i == d + 3 || i == d + 4;
        if is_scalar {
            let slot = if i < d { i } else { i - 3 };
            let c = spec.scalars[slot % spec.scalars.len()];
            if (3..=8).contains(&c) {
                noncanon = true;
            }
            v.extend_from_slice(&scalar_bytes(c, &mut rng));
        } else {
            let mut b = [0u8; 32];
            match spec.points {
                0 => rng.fill_bytes(&mut b),
                1 => {},
                2 => b = [0xff; 32],
                _ => b = curve25519_dalek::constants::RISTRETTO_BASEPOINT_COMPRESSED.to_bytes(),
            }
            v.extend_from_slice(&b);
        }
    }
    for _ in 0..spec.trailing {
        v.push(rng.next_u32() as u8);
    }
    let near_boundary = spec.offset != 0 || spec.trailing != 0 || spec.pairs <= 1 || !(1..=6).contains(&spec.first);
    (v, near_boundary, noncanon)
}

/// The decode-side oracle on one byte string; shared with the libFuzzer target.
pub fn check_string<E: Engine>(x: &[u8]) -> Result<bool, String> {
    let want = Proof::parse_strict(x);
    let got = guarded(|| RangeProof::<E::P>::from_bytes(x)).map_err(|e| format!("{} in from_bytes", e))?;
    if got.is_ok() != want.is_ok() {
        return Err(format!(
            "from_bytes {} a {}-byte string (first byte {:?}) that the documented acceptance set {} ({:?})",
            if got.is_ok() { "ACCEPTS" } else { "rejects" },
            x.len(),
            x.first(),
            if want.is_ok() { "contains" } else { "excludes" },
            want.as_ref().err()
        ));
    }
    // degree helper: first-byte rule
    let deg = guarded(|| RangeProof::<E::P>::extension_degree_from_proof_bytes(x))?;
    let deg_want = x.first().map(|b| (1..=6).contains(b)).unwrap_or(false);
    if deg.is_ok() != deg_want {
        return Err(format!("extension_degree_from_proof_bytes disagrees with the first-byte rule on first byte {:?}", x.first()));
    }
    if let Ok(d) = &deg {
        if *d as u8 != x[0] {
            return Err("extension_degree_from_proof_bytes returns a degree different from the first byte".into());
        }
    }
    // serde form: bincode = u64 LE length prefix + the same bytes
    let mut framed = (x.len() as u64).to_le_bytes().to_vec();
    framed.extend_from_slice(x);
    let de = guarded(|| bincode::deserialize::<RangeProof<E::P>>(&framed))?;
    if de.is_ok() != got.is_ok() {
        return Err(format!(
            "serde form {} what from_bytes {} ({} bytes)",
            if de.is_ok() { "accepts" } else { "rejects" },
            if got.is_ok() { "accepts" } else { "rejects" },
            x.len()
        ));
    }
    // the reader-based entry point of the same serde form hands the visitor a transient buffer
    let de_reader = guarded(|| bincode::deserialize_from::<_, RangeProof<E::P>>(std::io::Cursor::new(&framed)))?;
    if de_reader.is_ok() != got.is_ok() {
        return Err(format!(
            "serde form read from a reader {} what from_bytes {} ({} bytes)",
            if de_reader.is_ok() { "accepts" } else { "rejects" },
            if got.is_ok() { "accepts" } else { "rejects" },
            x.len()
        ));
    }
    // decoding INTO an existing proof object (serde's in-place entry; what a Vec<RangeProof> uses when it is refilled): the
    // object afterwards is the decoded proof, whatever it held before (here: degree 6, three L/R pairs)
    {
        use bincode::Options;
        let mut old_bytes = vec![0u8; 1 + 32 * (5 + 6 + 2 * 3)];
        old_bytes[0] = 6;
        if let Ok(mut place) = guarded(|| RangeProof::<E::P>::from_bytes(&old_bytes))? {
            let r = guarded(|| {
                let mut d = bincode::Deserializer::from_slice(&framed, bincode::DefaultOptions::new().with_fixint_encoding().allow_trailing_bytes());
                <RangeProof<E::P> as serde::Deserialize>::deserialize_in_place(&mut d, &mut place).map_err(|e| format!("{}", e))
            })?;
            if r.is_ok() != got.is_ok() {
                return Err(format!(
                    "serde form decoded in place {} what from_bytes {} ({} bytes)",
                    if r.is_ok() { "accepts" } else { "rejects" },
                    if got.is_ok() { "accepts" } else { "rejects" },
                    x.len()
                ));
            }
            if let (Ok(()), Ok(p)) = (&r, &got) {
                if place != *p || place.to_bytes() != x {
                    return Err("serde form decoded in place into an existing proof gives a proof different from from_bytes of the same string".into());
                }
            }
        }
    }
    if let Ok(p) = &got {
        let re = p.to_bytes();
        if re != x {
            return Err(format!("decoding succeeded but re-encoding returns different bytes (first difference at {})",
                re.iter().zip(x.iter()).position(|(a, b)| a != b).unwrap_or(re.len().min(x.len()))));
        }
        if de.as_ref().ok() != Some(p) {
            return Err("serde form decodes to a different proof than from_bytes".into());
        }
        let ser = guarded(|| bincode::serialize(p))?.map_err(|e| format!("bincode serialize: {}", e))?;
        if ser != framed {
            return Err("serde form produces different bytes than to_bytes".into());
        }
        if E::proof_degree(p) as u8 != x[0] {
            return Err("decoded proof reports a degree different from the first byte".into());
        }
    }
    Ok(got.is_ok())
}

pub fn str_oracle<E: Engine>(_ctx: &RunCtx, spec: &StrSpec, log: &mut CaseLog) -> Result<(), String> {
    let (x, near, noncanon) = build_string(spec);
    let accepted = check_string::<E>(&x)?;
    // every proper prefix / one-byte extension of an accepted string is refused
    if accepted {
        for cut in [1usize, 31, 32, 33, 64] {
            if x.len() > cut {
                if check_string::<E>(&x[..x.len() - cut])? && cut != 64 {
                    return Err(format!("accepted string stays accepted after removing its last {} bytes", cut));
                }
            }
        }
        let mut y = x.clone();
        y.push(0);
        if check_string::<E>(&y)? {
            return Err("accepted string stays accepted with a trailing zero byte".into());
        }
    }
    log.label(format!("engine={}", E::NAME));
    log.label(format!("string:accepted={}", accepted));
    log.label(format!("string:first={}", if (1..=6).contains(&spec.first) { "1..6" } else { "invalid" }));
    log.label(format!("string:offset={}", spec.offset));
    log.label(format!("string:trailing={}", if spec.trailing == 0 { "0" } else { ">0" }));
    log.label(format!("string:pairs={}", if spec.pairs == 0 { "0" } else if spec.pairs > 6 { ">6" } else { "1-6" }));
    for c in spec.scalars.iter().take(3) {
        log.label(format!("string:scalar={}", SCLASS[*c as usize]));
    }
    if near || noncanon {
        log.nontrivial(&(spec.first, spec.pairs, spec.offset, spec.trailing.min(2), spec.scalars.clone(), spec.points));
    }
    log.sample(json!({"engine": E::NAME, "len": x.len(), "first": spec.first, "pairs": spec.pairs, "offset": spec.offset, "trailing": spec.trailing,
        "scalar_classes": spec.scalars.iter().map(|c| SCLASS[*c as usize]).collect::<Vec<_>>(), "accepted": accepted}));
    Ok(())
}

pub fn prover_oracle<E: Engine>(ctx: &RunCtx, spec: &TripleSpec, log: &mut CaseLog) -> Result<(), String> {
    E::reset_case();
    let t = Triple::<E>::build(spec)?;
    let proof = setup(guarded(|| t.prove()), "the prover refused or panicked on a valid witness (C01's subject)")?;
    let bytes = proof.to_bytes();
    let want_len = 1 + 32 * (5 + t.cfg.ext + 2 * t.cfg.rounds());
    if bytes.len() != want_len {
        return Err(format!("encoded length {} != 1 + 32*(5 + d + 2*log2(bits*m)) = {}", bytes.len(), want_len));
    }
    if bytes[0] as usize != t.cfg.ext {
        return Err("first byte is not the extension degree".into());
    }
    let ser = guarded(|| bincode::serialize(&proof))?.map_err(|e| format!("{}", e))?;
    let mut framed = (bytes.len() as u64).to_le_bytes().to_vec();
    framed.extend_from_slice(&bytes);
    if ser != framed {
        return Err("serde form of prover output differs from length-prefixed to_bytes".into());
    }
    match guarded(|| RangeProof::<E::P>::from_bytes(&bytes))? {
        Ok(p) => {
            if p != proof {
                return Err("decode(encode(proof)) != proof".into());
            }
            if p.to_bytes() != bytes {
                return Err("encode(decode(encode(proof))) differs".into());
            }
            let de = guarded(|| bincode::deserialize::<RangeProof<E::P>>(&ser))?.map_err(|e| format!("serde refuses prover output: {}", e))?;
            if de != proof {
                return Err("serde round trip changes the proof".into());
            }
        },
        Err(e) => {
            // known finding: the prover's zero-round proof (bits*m == 1) is refused by the decoder
            if t.cfg.rounds() == 0 && ctx.is_known("roundtrip-zero-rounds").is_some() {
                log.known.push("roundtrip-zero-rounds".into());
                log.excluded += 1;
                // serde must agree with from_bytes even here
                if guarded(|| bincode::deserialize::<RangeProof<E::P>>(&ser))?.is_ok() {
                    return Err("serde accepts the zero-round proof that from_bytes refuses".into());
                }
            } else {
                return Err(format!(
                    "decoder refuses the prover's own output ({} rounds, {} bytes): {:?}",
                    t.cfg.rounds(),
                    bytes.len(),
                    e
                ));
            }
        },
    }
    // whatever else the prover can be brought to output must round-trip as well: a witness with one blinding component fewer
    // than the generators' degree (its shorter openings do reproduce the commitments) is refused today; if a proof comes back,
    // it is a prover output like any other
    if t.cfg.ext >= 2 {
        use tari_bulletproofs_plus::{commitment_opening::CommitmentOpening, range_statement::RangeStatement, range_witness::RangeWitness};
        let short: Vec<Vec<curve25519_dalek::scalar::Scalar>> = t.blindings.iter().map(|r| r[..r.len() - 1].to_vec()).collect();
        let cs: Vec<E::P> = t
            .values
            .iter()
            .zip(short.iter())
            .map(|(v, r)| E::commit(t.params.pc_gens(), &curve25519_dalek::scalar::Scalar::from(*v), r).map_err(|e| format!("commit: {:?}", e)))
            .collect::<Result<_, _>>()?;
        let st = RangeStatement::init(t.params.clone(), cs, t.promises.clone(), t.seed).map_err(crate::runner::skip_err)?;
        let w = RangeWitness::init(t.values.iter().zip(short.iter()).map(|(v, r)| CommitmentOpening::new(*v, r.clone())).collect())
            .map_err(crate::runner::skip_err)?;
        if let Ok(p) = guarded(|| E::prove(&mut t.transcript(), &st, &w, &mut spec.rng.make()))? {
            let b = p.to_bytes();
            match guarded(|| RangeProof::<E::P>::from_bytes(&b))? {
                Ok(q) if q == p && q.to_bytes() == b => {},
                Ok(_) => return Err("decode(encode(proof)) != proof for the proof the prover returned for a witness of lower degree than the generators".into()),
                Err(e) if t.cfg.rounds() == 0 && ctx.is_known("roundtrip-zero-rounds").is_some() => {
                    let _ = e;
                },
                Err(e) => {
                    return Err(format!(
                        "decoder refuses the proof the prover returned for a witness of degree {} under generators of degree {}: {:?}",
                        t.cfg.ext - 1,
                        t.cfg.ext,
                        e
                    ))
                },
            }
            log.label("prover-output:short-witness-proved");
        } else {
            log.label("prover-output:short-witness-refused");
        }
        log.extra_evals += 1;
    }
    log.label(format!("engine={}", E::NAME));
    log.label("prover-output");
    log.labels(t.classes());
    log.nontrivial(&(t.cfg, "prover-output"));
    log.sample(json!({"engine": E::NAME, "kind": "prover-output", "cfg": t.cfg, "len": bytes.len()}));
    Ok(())
}

fn str_sub<E: Engine>(cases: (usize, usize)) -> Sub {
    sub(
        &format!("{}/structured-strings", E::NAME),
        no_fixed,
        cases,
        |_: &RunCtx, _: Option<&()>| str_strategy(),
        str_oracle::<E>,
    )
}
fn prover_sub<E: Engine>(cases: (usize, usize)) -> Sub {
    sub(
        &format!("{}/prover-output", E::NAME),
        |ctx: &RunCtx| lattice(if ctx.tier == Tier::Quick { 512 } else { 2048 }, 64),
        cases,
        |ctx: &RunCtx, f: Option<&Cfg>| {
            let cfg = match f {
                Some(c) => Just(*c).boxed(),
                None => cfg_strategy(if ctx.tier == Tier::Quick { 512 } else { 2048 }, 64),
            };
            triple_strategy(cfg)
        },
        prover_oracle::<E>,
    )
}

pub fn def() -> PropertyDef {
    PropertyDef {
        id: "C15",
        level: "exploration",
        rule: "Two generators (plus the libFuzzer target `decode` in the thorough tier, which runs the same in-target oracle from an empty \
               corpus and from honest proofs). (i) structured byte strings: first byte in {1..6, 0, 7, 8, 255, any}, element count 5+d+2k+offset \
               with k in {0..6, 7..40, 70, 126..131, 250..255} and offset in {-2..2}, 0..33 trailing bytes, each scalar slot in {uniform canonical, 0, l-1, l, l+1, \
               2^255-1, high bit set, all 0xff, l +- a delta touching one to three 64-bit limbs}, point slots {random, zero, 0xff, basepoint}; plus truncations (1, 31, 32, 33 bytes) and a \
               one-byte extension of every accepted string. (ii) prover output in every lattice configuration. Oracle: from_bytes accepts <=> \
               independent predicate (own length arithmetic, own 256-bit comparison with l); accept => re-encoding is byte-identical; bincode \
               deserialize(len || x) accepts <=> from_bytes accepts, equal value; serialize(p) == len || to_bytes(p); degree helper == first-byte \
               rule; prover output round-trips and has length 1+32(5+d+2 log2(bits m)); a witness with one blinding component fewer than the generators' degree is refused today - if the prover returns a proof for it, that output must round-trip too. Non-trivial = a string within one element of an \
               acceptance boundary or with a non-canonical scalar, or a prover output; distinct by (first byte, pairs, offset, trailing class, \
               slot classes) / configuration."
            .into(),
        assumptions: vec![
            "known finding roundtrip-zero-rounds (KNOWN_FINDINGS.txt): prover output with exactly 0 rounds is refused by the decoder; any other round-trip failure is a violation".into(),
        ],
        exhaustive: false,
        subs: vec![
            str_sub::<R>((300_000, 3_000_000)),
            str_sub::<F>((60_000, 500_000)),
            prover_sub::<R>((1500, 12_000)),
            prover_sub::<F>((8000, 80_000)),
            crate::fuzzdec::corpus_sub("decode"),
        ],
    }
}
