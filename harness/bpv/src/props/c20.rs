//! C20 Secrets are wiped from heap memory before it is released (tracking allocator, freed-block scan).
use curve25519_dalek::{scalar::Scalar, RistrettoPoint};
use proptest::prelude::*;
use serde::{Deserialize, Serialize};
use serde_json::json;
use tari_bulletproofs_plus::{
    commitment_opening::CommitmentOpening,
    extended_mask::ExtendedMask,
    range_proof::{RangeProof, VerifyAction},
    range_statement::RangeStatement,
    range_witness::RangeWitness,
};

use crate::{
    alloc,
    eng::{ext_of, Engine, RngSpec, R},
    gen::{ctx_strategy, Cfg, CtxSpec, SeedSpec, SlotSpec, Triple, TripleSpec, BITS},
    refimpl::Proof,
    runner::{guarded, setup, SKIP, no_fixed, sub, CaseLog, PropertyDef, RunCtx, INCONCLUSIVE},
    tapx::{challenge_scalar, challenges, tapped_prover},
};

#[derive(Clone, Debug, Serialize, Deserialize)]
pub struct WipeSpec {
    pub bits_idx: u8,
    pub m_log: u8,
    pub cap_log: u8,
    pub ext: usize,
    pub seed: bool,
    pub promise: u8,
    pub ctx: CtxSpec,
    pub bulk: u64,
    pub rng: u64,
}

fn wipe_strategy() -> impl Strategy<Value = WipeSpec> {
    (
        prop_oneof![1 => 3u8..=5, 3 => Just(6u8)],
        prop_oneof![4 => Just(0u8), 2 => Just(1u8), 2 => Just(2u8), 2 => Just(3u8), 1 => Just(4u8)],
        0u8..=1,
        1usize..=6,
        any::<bool>(),
        0u8..3,
        ctx_strategy(),
        any::<u64>(),
        any::<u64>(),
    )
        .prop_map(|(bits_idx, m_log, cap_log, ext, seed, promise, ctx, bulk, rng)| WipeSpec {
            bits_idx,
            m_log,
            cap_log,
            ext,
            seed,
            promise,
            ctx,
            bulk,
            rng,
        })
}

/// A pattern to look for. The harness itself must never leave a raw copy of a secret in memory it frees (a later, not fully
/// initialised allocation of the library could pick it up and be blamed for it), so patterns are held XOR-masked and are
/// built byte by byte from values on the stack.
struct Secret {
    name: String,
    /// pattern bytes XOR `MASK`
    pat: Vec<u8>,
}
const MASK: u8 = 0xa7;
impl Secret {
    fn new(name: String, raw: impl IntoIterator<Item = u8>) -> Secret {
        let pat = raw.into_iter().map(|b| b ^ MASK).collect();
        Secret { name, pat }
    }
    fn dup(&self) -> Secret {
        let (name, pat) = (self.name.clone(), self.pat.clone());
        Secret { name, pat }
    }
}
/// wipe a harness-side temporary that held raw secrets before it is released
fn wipe<T: zeroize::Zeroize>(mut x: T) {
    x.zeroize();
}

/// a secret integer rendered as text (an error message, a debug string): decimal and hexadecimal digits, produced on the stack
fn text_patterns(name: &str, v: u64) -> Vec<Secret> {
    if v >> 40 == 0 {
        return vec![];
    }
    let digits = |base: u64, upper: bool| -> ([u8; 20], usize) {
        let mut buf = [0u8; 20];
        let mut n = 0;
        let mut x = v;
        while x > 0 {
            let d = (x % base) as u8;
            buf[n] = if d < 10 { b'0' + d } else if upper { b'A' + d - 10 } else { b'a' + d - 10 };
            n += 1;
            x /= base;
        }
        buf[..n].reverse();
        (buf, n)
    };
    let mut out = vec![];
    for (what, base, upper) in [("decimal", 10u64, false), ("hexadecimal", 16, false), ("hexadecimal", 16, true)] {
        let (buf, n) = digits(base, upper);
        out.push(Secret::new(format!("{} as {} text", name, what), buf[..n].iter().copied()));
    }
    out
}

/// Scan the blocks freed during one operation for every secret pattern of the case (one pass per block: candidate patterns
/// are looked up by the byte at the position).
fn scan(op: &str, cap: alloc::Captured, secrets: &[Secret], stats: &mut (u64, u64)) -> Result<(), String> {
    let t0 = std::time::Instant::now();
    let (nb, bytes) = (cap.blocks.len(), cap.blocks.iter().map(|b| b.len()).sum::<usize>());
    let r = scan_inner(op, cap, secrets, stats);
    if std::env::var("VERIF_C20_TIMING").is_ok() {
        eprintln!("TIMING scan {:?} {} blocks={} bytes={} pats={}", t0.elapsed().as_micros(), op.split(' ').next().unwrap_or(""), nb, bytes, secrets.len());
    }
    r
}
fn scan_inner(op: &str, cap: alloc::Captured, secrets: &[Secret], stats: &mut (u64, u64)) -> Result<(), String> {
    if cap.overflow {
        return Err(format!("{} capture arena overflow during {}", INCONCLUSIVE, op));
    }
    // (the search itself lives in a small crate of its own that the `scan` profile compiles with optimisation)
    let pats: Vec<&[u8]> = secrets.iter().map(|s| s.pat.as_slice()).collect();
    let matcher = scanfast::Matcher::new(&pats, MASK);
    for b in &cap.blocks {
        stats.0 += 1;
        if b.len() >= 32 {
            stats.1 += 1;
        }
        if b.len() < 8 {
            continue;
        }
        if let Some(k) = matcher.find(b) {
            return Err(format!(
                "a heap block of {} bytes freed during '{}' still contains {} (not wiped before release)",
                b.len(),
                op,
                secrets[k].name
            ));
        }
    }
    Ok(())
}

pub fn oracle(_ctx: &RunCtx, spec: &WipeSpec, log: &mut CaseLog) -> Result<(), String> {
    let bits = BITS[spec.bits_idx as usize % BITS.len()];
    let mut m = 1usize << spec.m_log;
    while bits * m > 256 && m > 1 {
        m /= 2;
    }
    let cap = m << spec.cap_log;
    let cfg = Cfg { bits, m, cap, ext: spec.ext };
    // high-entropy values (top-half uniform), uniform blindings, uniform seed
    let tspec = TripleSpec {
        cfg,
        slots: vec![SlotSpec {
            vclass: 6,
            vraw: spec.bulk,
            pclass: [0u8, 4, 5][spec.promise as usize % 3],
            praw: spec.bulk ^ 0x77,
            bclass: vec![0; 6],
        }],
        ctx: spec.ctx.clone(),
        rng: RngSpec::ChaCha(spec.rng),
        seed: if spec.seed { SeedSpec::Uniform(spec.bulk.rotate_left(17) ^ 0x1234_5678) } else { SeedSpec::None },
        bulk: spec.bulk,
    };
    let t = Triple::<R>::build(&tspec)?;
    // a first, tapped run of the same deterministic case gives z (tap is disarmed for the captured runs)
    let (p0, ev) = tapped_prover(|| guarded(|| t.prove()));
    let p0 = setup(p0, "the prover refused or panicked on a valid witness (C01's subject)")?;
    let ch = challenges(&ev);
    let z = challenge_scalar(&ch[1]);
    // patterns
    let mut secrets: Vec<Secret> = vec![];
    for (j, r) in t.blindings.iter().enumerate() {
        for (k, s) in r.iter().enumerate() {
            secrets.push(Secret::new(format!("blinding factor [{}][{}] / recovered mask component", j, k), s.as_bytes().iter().copied()));
        }
    }
    if let Some(sd) = t.seed {
        secrets.push(Secret::new("the recovery seed".into(), sd.as_bytes().iter().copied()));
    }
    if bits == 64 {
        for (j, v) in t.values.iter().enumerate() {
            secrets.push(Secret::new(format!("witness value [{}] (8-byte little-endian)", j), v.to_le_bytes()));
        }
    }
    if bits == 64 {
        for (j, v) in t.values.iter().enumerate() {
            secrets.extend(text_patterns(&format!("witness value [{}]", j), *v));
        }
    }
    if bits == 64 {
        for (j, v) in t.values.iter().enumerate() {
            let off = v - t.promises[j].unwrap_or(0);
            if off != *v && off >> 40 != 0 {
                secrets.push(Secret::new(format!("witness value [{}] minus its promise (8-byte little-endian)", j), off.to_le_bytes()));
            }
        }
    }
    // bit vectors of value - promise, as the prover lays them out: 16 consecutive 32-byte words
    if bits >= 16 {
        for (j, v) in t.values.iter().enumerate() {
            let off = v - t.promises[j].unwrap_or(0);
            let window: Vec<u64> = (bits - 16..bits).map(|i| (off >> i) & 1).collect();
            // at least four ones and four zeros: a sparser window (e.g. a single one followed by zeros) also occurs in unrelated
            // memory, e.g. in the 256-byte signed-digit rows that curve25519-dalek's variable-time multiscalar code builds
            // for the scalars 0 and 1 - a transformed representation that is outside this oracle (see DESIGN.md section 3, C20)
            let ones = window.iter().filter(|b| **b == 1).count();
            if ones >= 4 && ones <= 12 {
                // (an iterator: the raw bytes only ever exist on the stack)
                let enc = |f: fn(u64, Scalar) -> Scalar| {
                    let w = window.clone();
                    w.into_iter().flat_map(move |b| f(b, z).to_bytes())
                };
                secrets.push(Secret::new(format!("the top 16 bits of value[{}] - promise as 0/1 scalars", j), enc(|b, _| Scalar::from(b))));
                secrets.push(Secret::new(format!("the top 16 bits of value[{}] - promise as (bit - 1) scalars", j), enc(|b, _| Scalar::from(b) - Scalar::ONE)));
                secrets.push(Secret::new(format!("the top 16 bits of value[{}] - promise as (bit - z) scalars", j), enc(|b, z| Scalar::from(b) - z)));
            }
        }
    }
    let mut stats = (0u64, 0u64);
    // ---- prove
    alloc::capture_start();
    let proved = guarded(|| t.prove());
    let c = alloc::capture_stop();
    let proof = proved?.map_err(crate::runner::skip_err)?;
    if proof.to_bytes() != p0.to_bytes() {
        return Err(format!("{} prover is not deterministic for a fixed RNG stream", INCONCLUSIVE));
    }
    scan("prove", c, &secrets, &mut stats)?;
    // ---- a prove call that FAILS late: the promise of the LAST member of an aggregate exceeds its value
    if cfg.m >= 2 && t.values[cfg.m - 1] < u64::MAX {
        let mut bad = t.promises.clone();
        bad[cfg.m - 1] = Some(t.values[cfg.m - 1] + 1);
        let st_bad = RangeStatement::init(t.params.clone(), t.commitments.clone(), bad, None).map_err(crate::runner::skip_err)?;
        let mut tr = t.transcript();
        let mut rng = tspec.rng.make();
        alloc::capture_start();
        let r = guarded(|| R::prove(&mut tr, &st_bad, &t.w, &mut rng).is_ok());
        let c = alloc::capture_stop();
        if r? {
            return Err("prover accepted value < promise at the last position of an aggregate".into());
        }
        scan("prove refused because the last member's promise exceeds its value", c, &secrets, &mut stats)?;
        drop(st_bad);
    }
    // ---- a prove call refused because a value does not fit in the bit length (committed consistently, so the refusal is the range one)
    if bits < 64 {
        let big = spec.bulk.rotate_left(29) | (1u64 << 62);
        let j = (spec.bulk as usize) % cfg.m;
        let mut vals = t.values.clone();
        vals[j] = big;
        let cs: Vec<RistrettoPoint> = vals
            .iter()
            .zip(t.blindings.iter())
            .map(|(v, r)| t.params.pc_gens().commit(&Scalar::from(*v), r).map_err(crate::runner::skip_err))
            .collect::<Result<_, _>>()?;
        let st_big = RangeStatement::init(t.params.clone(), cs, t.promises.clone(), t.seed).map_err(crate::runner::skip_err)?;
        let w_big = RangeWitness::init(vals.iter().zip(t.blindings.iter()).map(|(v, r)| CommitmentOpening::new(*v, r.clone())).collect())
            .map_err(crate::runner::skip_err)?;
        let mut with_big = secrets.iter().map(Secret::dup).collect::<Vec<_>>();
        with_big.push(Secret::new(format!("the out-of-range witness value [{}] (8-byte little-endian)", j), big.to_le_bytes()));
        with_big.extend(text_patterns(&format!("the out-of-range witness value [{}]", j), big));
        let mut tr = t.transcript();
        let mut rng = tspec.rng.make();
        alloc::capture_start();
        // the error value is dropped inside the window: whatever it owns is released here
        let r = guarded(|| R::prove(&mut tr, &st_big, &w_big, &mut rng).is_ok());
        let c = alloc::capture_stop();
        if r? {
            return Err(format!("prover accepted the value {} in a {}-bit statement", big, bits));
        }
        scan("prove refused because a value does not fit in the bit length (error value dropped)", c, &with_big, &mut stats)?;
        alloc::capture_start();
        drop(w_big);
        scan("drop(RangeWitness) holding an out-of-range value", alloc::capture_stop(), &with_big, &mut stats)?;
        drop(st_big);
        wipe(vals);
    }
    // ---- verify with recovery (and drop of the returned masks)
    for act in [VerifyAction::RecoverAndVerify, VerifyAction::RecoverOnly] {
        let mut ts = [t.transcript()];
        let sts = [t.st.clone()];
        let ps = [proof.clone()];
        alloc::capture_start();
        let r = guarded(|| R::verify(&mut ts, &sts, &ps, act).map(|masks| drop(masks)));
        let c = alloc::capture_stop();
        r?.map_err(crate::runner::skip_err)?;
        scan(&format!("verify_batch {:?} + drop of the returned masks", act), c, &secrets, &mut stats)?;
        drop(sts);
    }
    // ---- a recovering batch that FAILS after the first member's mask was computed
    if t.seed.is_some() && cfg.nm() > 1 {
        let mut pf = Proof::parse_layout(&proof.to_bytes()).map_err(crate::runner::skip_err)?;
        pf.s1 = (Scalar::from_bytes_mod_order(pf.s1) + Scalar::ONE).to_bytes();
        let bad = RangeProof::<RistrettoPoint>::from_bytes(&pf.encode()).map_err(crate::runner::skip_err)?;
        // (a) rejected by the final check; (b) an error inside the per-proof loop (undecodable point in the second member)
        let mut pf2 = Proof::parse_layout(&proof.to_bytes()).map_err(crate::runner::skip_err)?;
        pf2.a1 = crate::mutate::UNDECODABLE;
        let bad2 = RangeProof::<RistrettoPoint>::from_bytes(&pf2.encode()).map_err(crate::runner::skip_err)?;
        for (which, second) in [("rejected by the final check", bad), ("error while processing the second member", bad2)] {
            for act in [VerifyAction::RecoverAndVerify, VerifyAction::RecoverOnly] {
                let mut ts = [t.transcript(), t.transcript()];
                let sts = [t.st.clone(), t.st.clone()];
                let ps = [proof.clone(), second.clone()];
                alloc::capture_start();
                let r = guarded(|| R::verify(&mut ts, &sts, &ps, act).map(|masks| drop(masks)).is_ok());
                let c = alloc::capture_stop();
                r?;
                scan(&format!("verify_batch {:?} of [valid seeded member, invalid member] ({})", act, which), c, &secrets, &mut stats)?;
                drop(sts);
            }
        }
    }
    // ---- drops of the owning types (the clones are made outside the capture window)
    let w2: RangeWitness = t.w.clone();
    alloc::capture_start();
    drop(w2);
    scan("drop(RangeWitness)", alloc::capture_stop(), &secrets, &mut stats)?;
    let o = CommitmentOpening::new(t.values[0], t.blindings[0].clone());
    let o2 = o.clone();
    alloc::capture_start();
    drop(o);
    drop(o2);
    scan("drop(CommitmentOpening)", alloc::capture_stop(), &secrets, &mut stats)?;
    // ---- the same owners when their vectors have SPARE CAPACITY that held blinding factors (drawn for a wider degree, then
    // truncated): the buffer is released by the owner, so the whole allocation is the owner's to wipe
    {
        let mut g = crate::gen::chacha(spec.bulk ^ 0x5a5a_0001);
        let stale: Vec<Scalar> = (0..2).map(|_| crate::gen::rand_scalar(&mut g)).collect();
        let mut with_stale = secrets.iter().map(Secret::dup).collect::<Vec<_>>();
        for (i, s) in stale.iter().enumerate() {
            with_stale.push(Secret::new(format!("blinding factor {} left in the spare capacity of the owner's vector", i), s.as_bytes().iter().copied()));
        }
        let roomy = |r: &Vec<Scalar>| {
            let mut v = Vec::with_capacity(r.len() + 2);
            v.extend_from_slice(r);
            v.extend_from_slice(&stale);
            v.truncate(r.len());
            v
        };
        let o = CommitmentOpening::new(t.values[0], roomy(&t.blindings[0]));
        alloc::capture_start();
        drop(o);
        scan("drop(CommitmentOpening) whose blinding vector has spare capacity", alloc::capture_stop(), &with_stale, &mut stats)?;
        let w3 = RangeWitness::init(t.values.iter().zip(t.blindings.iter()).map(|(v, r)| CommitmentOpening::new(*v, roomy(r))).collect())
            .map_err(crate::runner::skip_err)?;
        let mut tr = t.transcript();
        let mut rng = tspec.rng.make();
        alloc::capture_start();
        let r = guarded(|| R::prove(&mut tr, &t.st, &w3, &mut rng).is_ok());
        drop(w3);
        let c = alloc::capture_stop();
        if !r? {
            return Err(format!("{} the prover refused a valid witness whose blinding vectors have spare capacity (C01's subject)", SKIP));
        }
        scan("prove + drop(RangeWitness) with blinding vectors that have spare capacity", c, &with_stale, &mut stats)?;
        // the witness's vector of openings with spare capacity that held one more opening (moved out by the caller)
        {
            let extra_v = spec.bulk.rotate_left(43) | (1u64 << 61);
            let mut ops: Vec<CommitmentOpening> = Vec::with_capacity(cfg.m + 1);
            for (v, r) in t.values.iter().zip(t.blindings.iter()) {
                ops.push(CommitmentOpening::new(*v, r.clone()));
            }
            ops.push(CommitmentOpening::new(extra_v, t.blindings[0].clone()));
            let moved_out = ops.pop();
            let w4 = RangeWitness::init(ops).map_err(crate::runner::skip_err)?;
            let mut pats = with_stale.iter().map(Secret::dup).collect::<Vec<_>>();
            pats.push(Secret::new("a witness value left in the spare capacity of the witness's vector of openings".into(), extra_v.to_le_bytes()));
            alloc::capture_start();
            drop(w4);
            let c = alloc::capture_stop();
            drop(moved_out);
            scan("drop(RangeWitness) whose vector of openings has spare capacity", c, &pats, &mut stats)?;
        }
        let mk = ExtendedMask::assign(ext_of(cfg.ext), roomy(&t.blindings[0])).map_err(crate::runner::skip_err)?;
        alloc::capture_start();
        drop(mk);
        scan("drop(ExtendedMask) whose vector has spare capacity", alloc::capture_stop(), &with_stale, &mut stats)?;
        wipe(stale);
    }
    // ---- an existing witness / opening OVERWRITTEN through Clone::clone_from by one of higher degree: whatever is released
    // on the way held the old blinding factors
    {
        let mut g = crate::gen::chacha(spec.bulk ^ 0xc10e);
        let old_r: Vec<Vec<Scalar>> = (0..cfg.m).map(|_| (0..1).map(|_| crate::gen::rand_scalar(&mut g)).collect()).collect();
        let mut pats = secrets.iter().map(Secret::dup).collect::<Vec<_>>();
        for (j, r) in old_r.iter().enumerate() {
            pats.push(Secret::new(format!("blinding factor [{}][0] of the witness that was overwritten", j), r[0].as_bytes().iter().copied()));
        }
        let mut w_old = RangeWitness::init(t.values.iter().zip(old_r.iter()).map(|(v, r)| CommitmentOpening::new(*v, r.clone())).collect())
            .map_err(crate::runner::skip_err)?;
        let mut o_old = CommitmentOpening::new(t.values[0], old_r[0].clone());
        let o_new = CommitmentOpening::new(t.values[0], t.blindings[0].clone());
        alloc::capture_start();
        w_old.clone_from(&t.w);
        o_old.clone_from(&o_new);
        let c = alloc::capture_stop();
        scan("clone_from into an existing RangeWitness / CommitmentOpening", c, &pats, &mut stats)?;
        alloc::capture_start();
        drop(w_old);
        drop(o_old);
        drop(o_new);
        let c_drop = alloc::capture_stop();
        wipe(old_r);
        scan("drop of a RangeWitness / CommitmentOpening that was overwritten through clone_from", c_drop, &pats, &mut stats)?;
    }
    // ---- a witness assembled by hand (public fields) in which the LAST opening of an aggregate carries one blinding factor
    // fewer than the degree it declares: the prover takes it (the missing component acts as zero)
    if cfg.m >= 2 && cfg.ext >= 2 {
        let mut rs = t.blindings.clone();
        rs[cfg.m - 1].pop();
        let cs: Vec<RistrettoPoint> = t
            .values
            .iter()
            .zip(rs.iter())
            .map(|(v, r)| t.params.pc_gens().commit(&Scalar::from(*v), r).map_err(crate::runner::skip_err))
            .collect::<Result<_, _>>()?;
        let st_h = RangeStatement::init(t.params.clone(), cs, t.promises.clone(), None).map_err(crate::runner::skip_err)?;
        let w_h = RangeWitness {
            openings: t.values.iter().zip(rs.iter()).map(|(v, r)| CommitmentOpening::new(*v, r.clone())).collect(),
            extension_degree: ext_of(cfg.ext),
        };
        let mut tr = t.transcript();
        let mut rng = tspec.rng.make();
        alloc::capture_start();
        let r = guarded(|| R::prove(&mut tr, &st_h, &w_h, &mut rng).is_ok());
        let c = alloc::capture_stop();
        r?;
        scan("prove with a hand-assembled witness whose last opening is one blinding factor short", c, &secrets, &mut stats)?;
        alloc::capture_start();
        drop(w_h);
        scan("drop of that witness", alloc::capture_stop(), &secrets, &mut stats)?;
        drop(st_h);
        wipe(rs);
    }
    let mask = ExtendedMask::assign(ext_of(cfg.ext), t.blindings[0].clone()).map_err(crate::runner::skip_err)?;
    alloc::capture_start();
    let got = mask.blindings();
    drop(mask);
    let c = alloc::capture_stop();
    // `blindings()` hands a plain copy to the caller; that copy is the caller's to wipe
    if let Ok(g) = got {
        wipe(g);
    }
    scan("drop(ExtendedMask)", c, &secrets, &mut stats)?;
    // ---- statement: heap on drop, and the inline seed after drop_in_place
    let st2: RangeStatement<RistrettoPoint> = t.st.clone();
    alloc::capture_start();
    drop(st2);
    scan("drop(RangeStatement)", alloc::capture_stop(), &secrets, &mut stats)?;
    if let Some(sd) = t.seed {
        let raw: *mut RangeStatement<RistrettoPoint> = Box::into_raw(Box::new(t.st.clone()));
        let n = std::mem::size_of::<RangeStatement<RistrettoPoint>>();
        let mut after = vec![0u8; n];
        unsafe {
            std::ptr::drop_in_place(raw);
            for i in 0..n {
                after[i] = std::ptr::read_volatile((raw as *const u8).add(i));
            }
            std::alloc::dealloc(raw as *mut u8, std::alloc::Layout::new::<RangeStatement<RistrettoPoint>>());
        }
        if after.windows(32).any(|w| w == sd.as_bytes()) {
            return Err("the seed held inline in a RangeStatement is still present after the statement was dropped".into());
        }
    }
    // ---- a seed attached to an AGGREGATED statement through the public field (the constructor refuses it, the type does not)
    if cfg.m >= 2 {
        let sd = crate::gen::rand_scalar(&mut crate::gen::chacha(spec.bulk ^ 0xa66));
        let mut boxed = Box::new(t.st.clone());
        boxed.seed_nonce = Some(sd);
        let raw: *mut RangeStatement<RistrettoPoint> = Box::into_raw(boxed);
        let n = std::mem::size_of::<RangeStatement<RistrettoPoint>>();
        let mut after = vec![0u8; n];
        unsafe {
            std::ptr::drop_in_place(raw);
            for i in 0..n {
                after[i] = std::ptr::read_volatile((raw as *const u8).add(i));
            }
            std::alloc::dealloc(raw as *mut u8, std::alloc::Layout::new::<RangeStatement<RistrettoPoint>>());
        }
        if after.windows(32).any(|w| w == sd.as_bytes()) {
            return Err(format!(
                "the seed held inline in a RangeStatement with {} commitments is still present after the statement was dropped",
                cfg.m
            ));
        }
    }
    // ---- a prove call refused EARLY because a blinding generator is the identity (degenerate public generator set); if the
    // constructors already refuse such a set there is no such call to look at
    {
        let mut pc = R::pedersen(cfg.ext);
        let last = cfg.ext - 1;
        pc.g_base_vec[last] = <RistrettoPoint as curve25519_dalek::traits::Identity>::identity();
        pc.g_base_compressed_vec[last] = pc.g_base_vec[last].compress();
        let built = (|| -> Result<RangeStatement<RistrettoPoint>, String> {
            let params = tari_bulletproofs_plus::range_parameters::RangeParameters::init(bits, cfg.cap, pc.clone()).map_err(|e| format!("{:?}", e))?;
            let cs: Vec<RistrettoPoint> = t
                .values
                .iter()
                .zip(t.blindings.iter())
                .map(|(v, r)| pc.commit(&Scalar::from(*v), r).map_err(|e| format!("{:?}", e)))
                .collect::<Result<_, _>>()?;
            RangeStatement::init(params, cs, t.promises.clone(), t.seed).map_err(|e| format!("{:?}", e))
        })();
        if let Ok(st_deg) = built {
            let mut tr = t.transcript();
            let mut rng = tspec.rng.make();
            alloc::capture_start();
            let r = guarded(|| R::prove(&mut tr, &st_deg, &t.w, &mut rng).is_ok());
            let c = alloc::capture_stop();
            r?;
            scan("prove refused because a blinding generator is the identity", c, &secrets, &mut stats)?;
            drop(st_deg);
        } else {
            log.label("wipe:identity-generator-set-refused-by-constructors");
        }
    }
    if stats.1 == 0 {
        return Err(format!("{} no freed block of >= 32 bytes was observed", INCONCLUSIVE));
    }
    log.label("engine=R");
    log.label(format!("bits={}", bits));
    log.label(format!("m={}", m));
    log.label(format!("ext={}", cfg.ext));
    log.label(format!("wipe:seed={}", t.seed.is_some()));
    log.label(format!("wipe:witness-bytes={}", if m * (8 + 32 * cfg.ext) > 512 { ">512" } else { "<=512" }));
    log.extra_evals += 8;
    if t.seed.is_some() || cfg.ext >= 2 {
        log.nontrivial(&(cfg, t.seed.is_some(), spec.bulk));
    }
    log.sample(json!({"cfg": cfg, "seed": t.seed.is_some(), "patterns": secrets.len(), "freed_blocks_scanned": stats.0, "freed_blocks_ge_32_bytes": stats.1}));
    Ok(())
}

pub fn def() -> PropertyDef {
    PropertyDef {
        id: "C20",
        level: "exploration",
        rule: "A case is a configuration (8-64 bits, aggregation 1-16, capacity m..2m, degree 1-6) with high-entropy secrets (top-half uniform \
               values, uniform blindings, uniform seed) run on Ristretto under a tracking global allocator that copies every block passed to \
               dealloc (the old block of a moving realloc included) while armed. Operations, each with its own capture window: prove; a prove call that is refused late (promise of the last aggregate member above its value) or early (a blinding generator of the public generator set is the identity); \
               a prove call refused because a 62-bit value does not fit the bit length (error value dropped inside the window; the value is also searched as decimal / hexadecimal text); verify_batch in RecoverAndVerify and RecoverOnly followed by drop of the returned masks; recovering verification of [valid seeded \
               member, invalid member] that fails at the final check or inside the per-proof loop; drop of RangeWitness, CommitmentOpening (and \
               clone), ExtendedMask, RangeStatement; the same owners when their vectors have spare capacity that held two more blinding factors (drawn, then truncated) or one more opening (moved out), incl. a prove call with such a witness; Clone::clone_from into an existing witness / opening of lower degree (and its later drop); a prove call with a hand-assembled witness whose last opening is one blinding factor short; drop_in_place of a boxed statement (also an aggregated one whose seed was set through the public field) followed by a volatile read of its bytes. Oracle: no \
               freed block (no statement byte) contains a blinding scalar / mask component, the seed, a 64-bit value in little-endian form or as decimal / hexadecimal text, or a \
               16-word run spelling the top bits of value - promise as 0/1, (bit-1) or (bit-z) scalars (z from a first, tapped run of the same \
               deterministic case). Non-trivial = a case with a seed or degree >= 2 in which freed blocks >= 32 bytes were scanned; distinct by \
               (configuration, seed?, case)."
            .into(),
        assumptions: vec![
            "the check is built with the dedicated cargo profile `scan` (crate under test and harness at opt-level 0, dependencies optimised) so that temporaries present in the source are present in the binary".into(),
            "heap only, raw patterns only: a secret stored in a transformed representation (e.g. the signed-digit recodings inside curve25519-dalek's variable-time multiscalar code, or seed-derived nonces) is outside the oracle and outside the property's list".into(),
            "the copy returned by ExtendedMask::blindings() belongs to the caller and is not scanned".into(),
        ],
        exhaustive: false,
        subs: vec![sub("R/freed-block-scan", no_fixed, (1200, 20_000), |_: &RunCtx, _: Option<&()>| wipe_strategy(), oracle)],
    }
}
