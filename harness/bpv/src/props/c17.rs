//! C17 Constructors accept exactly the documented parameter space (enumerated grids).
use std::convert::TryFrom;

use curve25519_dalek::scalar::Scalar;
use proptest::prelude::*;
use serde::{Deserialize, Serialize};
use serde_json::json;
use tari_bulletproofs_plus::{
    commitment_opening::CommitmentOpening,
    extended_mask::ExtendedMask,
    generators::pedersen_gens::ExtensionDegree,
    range_parameters::RangeParameters,
    range_statement::RangeStatement,
    range_witness::RangeWitness,
    traits::Compressable,
};

use crate::{
    eng::{ext_of, Engine, F, R},
    gen::{chacha, rand_scalar},
    mutate::fresh_point,
    refimpl::Stmt,
    runner::{guarded, sub, CaseLog, PropertyDef, RunCtx, Sub, Tier},
};

#[derive(Clone, Debug, Serialize, Deserialize, PartialEq, Eq, Hash)]
pub enum Ctor {
    Params { bits: usize, cap: usize, ext: usize },
    /// seed: 0 none, 1 an ordinary scalar, 2 the zero scalar, 3 one
    Statement { ncommit: usize, nprom: usize, seed: u8, cap: usize },
    Witness { shape: Vec<u8> },
    WitnessBig { shape: Vec<u16> },
    OpeningLen { n: usize },
    Mask { deg: usize, len: usize },
    /// the same with a blinding vector whose allocation is larger than its length by `spare` (built by push / truncate)
    MaskRoomy { deg: usize, len: usize, spare: usize },
    DegreeU8(u8),
    DegreeUsize(usize),
    Commit { nblind: usize, deg: usize },
    /// generators whose public fields were set by hand: `bases` >= deg masking bases present, declared degree `deg`
    CommitSurplus { nblind: usize, deg: usize, bases: usize },
}

/// `Vec::clone` allocates exactly `len`; this keeps the spare capacity (which is the point of the case)
trait CloneRoomy {
    fn clone_roomy(&self) -> Self;
}
impl CloneRoomy for Vec<Scalar> {
    fn clone_roomy(&self) -> Self {
        let mut v = Vec::with_capacity(self.capacity());
        v.extend_from_slice(self);
        v
    }
}

fn grid<E: Engine>(ctx: &RunCtx) -> Vec<Ctor> {
    let mut v = vec![];
    if E::IS_F {
        for bits in 0..=130usize {
            for cap in 0..=130usize {
                v.push(Ctor::Params {
                    bits,
                    cap,
                    ext: 1 + (bits + cap) % 6,
                });
            }
        }
        // large bit lengths, including powers of two far above 64
        for bits in [256usize, 1 << 16, 1 << 31, 1 << 32, 1 << 62, 1 << 63, usize::MAX, usize::MAX - 1, (1 << 63) + 1] {
            for cap in [0usize, 1, 2, 3] {
                v.push(Ctor::Params { bits, cap, ext: 1 });
            }
        }
        for cap in [1usize << 20, 1 << 40, 1 << 63, usize::MAX, 3, 6, 130, 255, 257] {
            v.push(Ctor::Params { bits: 3, cap, ext: 2 });
            v.push(Ctor::Params { bits: 65, cap, ext: 2 });
            v.push(Ctor::Params { bits: 128, cap, ext: 2 });
        }
        for cap in [1usize, 2, 4, 8, 16] {
            for ncommit in 0..=17usize {
                for nprom in 0..=17usize {
                    for seed in [0u8, 1, 2, 3] {
                        v.push(Ctor::Statement { ncommit, nprom, seed, cap });
                    }
                }
            }
        }
        v.push(Ctor::Witness { shape: vec![] });
        for a in 0..=8u8 {
            v.push(Ctor::Witness { shape: vec![a] });
            for b in 0..=8u8 {
                v.push(Ctor::Witness { shape: vec![a, b] });
                for c in 0..=8u8 {
                    v.push(Ctor::Witness { shape: vec![a, b, c] });
                    {
                        for d in 0..=8u8 {
                            v.push(Ctor::Witness { shape: vec![a, b, c, d] });
                        }
                    }
                }
            }
        }
        for n in 0..=8 {
            v.push(Ctor::OpeningLen { n });
        }
        // large blinding counts (never a valid degree), alone and next to small ones
        for big in [9u16, 31, 32, 33, 63, 64, 65, 127, 128, 129, 255, 256, 257, 300] {
            v.push(Ctor::WitnessBig { shape: vec![big] });
            for small in [1u16, 2, 6] {
                v.push(Ctor::WitnessBig { shape: vec![small, big] });
                v.push(Ctor::WitnessBig { shape: vec![big, small] });
                v.push(Ctor::WitnessBig { shape: vec![small, small, big, small] });
            }
            v.push(Ctor::WitnessBig { shape: vec![big, big] });
        }
        for deg in 1..=6 {
            for len in 0..=8 {
                v.push(Ctor::Mask { deg, len });
                for spare in [1usize, 2, 5] {
                    v.push(Ctor::MaskRoomy { deg, len, spare });
                }
            }
        }
        // capacities beyond the batch chunk size (cheap at one or two bits), and statements with that many commitments
        for bits in [1usize, 2] {
            for cap in [256usize, 512, 1024, 2048] {
                v.push(Ctor::Params { bits, cap, ext: 1 + cap % 5 });
            }
        }
        for (ncommit, cap) in [(256usize, 256usize), (512, 512), (512, 1024), (1024, 1024), (1024, 512), (257, 512), (511, 512)] {
            v.push(Ctor::Statement { ncommit, nprom: ncommit, seed: 0, cap });
        }
        for b in 0..=255u8 {
            v.push(Ctor::DegreeU8(b));
        }
        for n in 0..=300usize {
            v.push(Ctor::DegreeUsize(n));
        }
        for k in 1..8usize {
            for i in 0..=7usize {
                v.push(Ctor::DegreeUsize((1usize << (8 * k)) + i));
            }
        }
        v.push(Ctor::DegreeUsize(usize::MAX));
        v.push(Ctor::DegreeUsize(usize::MAX - 5));
    } else {
        // Ristretto: the valid points (and their invalid neighbours) of the parameter constructor, and commit
        for bits in [0usize, 1, 2, 3, 4, 8, 16, 32, 33, 64, 65, 128] {
            for cap in [0usize, 1, 2, 3, 4, 8, 16, 32, 64, 128] {
                if bits * cap <= if ctx.tier == Tier::Thorough { 8192 } else { 2048 } {
                    v.push(Ctor::Params {
                        bits,
                        cap,
                        ext: 1 + (bits + cap) % 6,
                    });
                }
            }
        }
    }
    for deg in 1..=6 {
        for nblind in 0..=8 {
            v.push(Ctor::Commit { nblind, deg });
        }
    }
    for deg in 1..=5 {
        for bases in deg + 1..=6 {
            for nblind in 0..=7 {
                v.push(Ctor::CommitSurplus { nblind, deg, bases });
            }
        }
    }
    v
}

pub fn oracle<E: Engine>(_ctx: &RunCtx, c: &Ctor, log: &mut CaseLog) -> Result<(), String> {
    E::reset_case();
    let what = format!("{:?}", c);
    let kind = what.split([' ', '(', '{']).next().unwrap().to_string();
    let expect_ok;
    match c {
        Ctor::Params { bits, cap, ext } => {
            let want = bits.is_power_of_two() && *bits <= 64 && cap.is_power_of_two();
            expect_ok = want;
            let r = guarded(|| RangeParameters::<E::P>::init(*bits, *cap, E::pedersen(*ext))).map_err(|e| format!("{} in {}", e, what))?;
            if r.is_ok() != want {
                return Err(format!("RangeParameters::init({}, {}) is {} but the documented domain says {}", bits, cap, okerr(r.is_ok()), okerr(want)));
            }
            if let Ok(p) = r {
                if p.bit_length() != *bits || p.max_aggregation_factor() != *cap || p.extension_degree() as usize != *ext {
                    return Err(format!("RangeParameters getters do not return the inputs for {}", what));
                }
                if p.gi_base_iter().count() != bits * cap || p.hi_base_iter().count() != bits * cap {
                    return Err(format!("RangeParameters::init({}, {}) does not hold bits*capacity vector generators", bits, cap));
                }
                if p.g_bases().len() != *ext || p.g_bases_compressed().len() != *ext {
                    return Err("number of blinding generators differs from the extension degree".into());
                }
            }
        },
        Ctor::Statement { ncommit, nprom, seed, cap } => {
            let want = ncommit.is_power_of_two() && nprom == ncommit && ncommit <= cap && !(*seed != 0 && *ncommit > 1);
            expect_ok = want;
            let params = E::params(4, *cap, 2).map_err(|e| format!("{:?}", e))?;
            let commitments: Vec<E::P> = (0..*ncommit).map(|i| fresh_point::<E::P>(i as u64)).collect();
            let promises: Vec<Option<u64>> = (0..*nprom).map(|i| if i % 2 == 0 { Some(i as u64 % 16) } else { None }).collect();
            let sd = match seed {
                0 => None,
                1 => Some(Scalar::from(99u8)),
                2 => Some(Scalar::ZERO),
                _ => Some(Scalar::ONE),
            };
            let r = guarded(|| RangeStatement::init(params.clone(), commitments.clone(), promises.clone(), sd)).map_err(|e| format!("{} in {}", e, what))?;
            if r.is_ok() != want {
                return Err(format!(
                    "RangeStatement::init with {} commitments, {} promises, seed {}, capacity {} is {} but the documented domain says {}",
                    ncommit,
                    nprom,
                    seed,
                    cap,
                    okerr(r.is_ok()),
                    okerr(want)
                ));
            }
            if let Ok(st) = r {
                if st.commitments != commitments || st.minimum_value_promises != promises || st.seed_nonce != sd {
                    return Err("RangeStatement fields differ from the inputs (silently adjusted value)".into());
                }
                if st.commitments_compressed.len() != commitments.len() ||
                    st.commitments_compressed.iter().zip(commitments.iter()).any(|(a, b)| *a != b.compress())
                {
                    return Err("commitments_compressed is not the encoding of the commitments".into());
                }
                if st.generators.max_aggregation_factor() != *cap {
                    return Err("statement generators were changed".into());
                }
            }
        },
        Ctor::Witness { shape } => {
            let want = !shape.is_empty() && shape.iter().all(|n| *n == shape[0]) && (1..=6).contains(&shape[0]);
            expect_ok = want;
            let openings: Vec<CommitmentOpening> = shape
                .iter()
                .enumerate()
                .map(|(i, n)| CommitmentOpening::new(i as u64 + 7, (0..*n).map(|k| Scalar::from((10 * i + k as usize) as u64)).collect()))
                .collect();
            let r = guarded(|| RangeWitness::init(openings.clone())).map_err(|e| format!("{} in {}", e, what))?;
            if r.is_ok() != want {
                return Err(format!("RangeWitness::init with blinding counts {:?} is {} but the documented domain says {}", shape, okerr(r.is_ok()), okerr(want)));
            }
            if let Ok(w) = r {
                if w.extension_degree as usize != shape[0] as usize || w.openings.len() != shape.len() {
                    return Err("RangeWitness does not hold the inputs".into());
                }
                for (o, n) in w.openings.iter().zip(shape.iter()) {
                    if o.r_len().ok() != Some(*n as usize) {
                        return Err("RangeWitness opening lengths were adjusted".into());
                    }
                }
            }
        },
        Ctor::WitnessBig { shape } => {
            let want = !shape.is_empty() && shape.iter().all(|n| *n == shape[0]) && (1..=6).contains(&shape[0]);
            expect_ok = want;
            let openings: Vec<CommitmentOpening> = shape
                .iter()
                .enumerate()
                .map(|(i, n)| CommitmentOpening::new(i as u64, vec![Scalar::from(i as u64 + 2); *n as usize]))
                .collect();
            let r = guarded(|| RangeWitness::init(openings.clone())).map_err(|e| format!("{} in {}", e, what))?;
            if r.is_ok() != want {
                return Err(format!("RangeWitness::init with blinding counts {:?} is {} but the documented domain says {}", shape, okerr(r.is_ok()), okerr(want)));
            }
        },
        Ctor::OpeningLen { n } => {
            let want = *n >= 1;
            expect_ok = want;
            let o = CommitmentOpening::new(5, vec![Scalar::ONE; *n]);
            let r = guarded(|| o.r_len())?;
            if r.is_ok() != want || (want && r.as_ref().ok() != Some(n)) {
                return Err(format!("CommitmentOpening::r_len with {} blinding factors returns {:?}", n, r.ok()));
            }
        },
        Ctor::Mask { deg, len } => {
            let want = len == deg;
            expect_ok = want;
            let b: Vec<Scalar> = (0..*len).map(|k| Scalar::from(k as u64 + 3)).collect();
            let r = guarded(|| ExtendedMask::assign(ext_of(*deg), b.clone()))?;
            if r.is_ok() != want {
                return Err(format!("ExtendedMask::assign(degree {}, {} blindings) is {} but the documented domain says {}", deg, len, okerr(r.is_ok()), okerr(want)));
            }
            if let Ok(m) = r {
                if m.blindings().ok() != Some(b) {
                    return Err("ExtendedMask::blindings does not return the inputs".into());
                }
            }
        },
        Ctor::MaskRoomy { deg, len, spare } => {
            // the length decides, not the allocation
            let want = len == deg;
            expect_ok = want;
            let mut b: Vec<Scalar> = Vec::with_capacity(*len + *spare);
            for k in 0..*len + *spare {
                b.push(Scalar::from(k as u64 + 3));
            }
            b.truncate(*len);
            let r = guarded(|| ExtendedMask::assign(ext_of(*deg), b.clone_roomy()))?;
            if r.is_ok() != want {
                return Err(format!(
                    "ExtendedMask::assign(degree {}, {} blindings in a vector of capacity {}) is {} but the documented domain says {}",
                    deg,
                    len,
                    len + spare,
                    okerr(r.is_ok()),
                    okerr(want)
                ));
            }
            if let Ok(m) = r {
                if m.blindings().ok() != Some(b) {
                    return Err("ExtendedMask::blindings does not return the inputs".into());
                }
            }
        },
        Ctor::DegreeU8(b) => {
            let want = (1..=6).contains(b);
            expect_ok = want;
            let r = guarded(|| ExtensionDegree::try_from(*b))?;
            if r.is_ok() != want || (want && r.as_ref().map(|d| *d as u8).ok() != Some(*b)) {
                return Err(format!("ExtensionDegree::try_from({}u8) is {}", b, okerr(r.is_ok())));
            }
        },
        Ctor::DegreeUsize(n) => {
            let want = (1..=6).contains(n);
            expect_ok = want;
            let r = guarded(|| ExtensionDegree::try_from(*n))?;
            if r.is_ok() != want || (want && r.as_ref().map(|d| *d as usize).ok() != Some(*n)) {
                return Err(format!("ExtensionDegree::try_from({}usize) is {}", n, okerr(r.is_ok())));
            }
        },
        Ctor::Commit { nblind, deg } => {
            let want = *nblind >= 1 && nblind <= deg;
            expect_ok = want;
            let pc = E::pedersen(*deg);
            let mut rng = chacha(*nblind as u64 * 7 + *deg as u64);
            let v = rand_scalar(&mut rng);
            let r: Vec<Scalar> = (0..*nblind).map(|_| rand_scalar(&mut rng)).collect();
            let got = guarded(|| E::commit(&pc, &v, &r))?;
            if got.is_ok() != want {
                return Err(format!("commit with {} blinding factors under degree {} is {} but the documented domain says {}", nblind, deg, okerr(got.is_ok()), okerr(want)));
            }
            if let Ok(cm) = got {
                if cm != Stmt::<E::P>::commit(&pc.h_base, &pc.g_base_vec, &v, &r) {
                    return Err("commit does not equal value*h + sum blinding_k*g_k".into());
                }
            }
        },
        Ctor::CommitSurplus { nblind, deg, bases } => {
            // the declared degree decides, not the number of bases that happen to be present
            let want = *nblind >= 1 && nblind <= deg;
            expect_ok = want;
            let mut pc = E::pedersen(*bases);
            pc.extension_degree = ext_of(*deg);
            let mut rng = chacha(*nblind as u64 * 11 + *deg as u64 * 3 + *bases as u64);
            let v = rand_scalar(&mut rng);
            let r: Vec<Scalar> = (0..*nblind).map(|_| rand_scalar(&mut rng)).collect();
            let got = guarded(|| E::commit(&pc, &v, &r))?;
            if got.is_ok() != want {
                return Err(format!(
                    "commit with {} blinding factors under declared degree {} ({} masking bases present) is {} but the documented domain says {}",
                    nblind,
                    deg,
                    bases,
                    okerr(got.is_ok()),
                    okerr(want)
                ));
            }
            if let Ok(cm) = got {
                if cm != Stmt::<E::P>::commit(&pc.h_base, &pc.g_base_vec, &v, &r) {
                    return Err("commit does not equal value*h + sum blinding_k*g_k".into());
                }
            }
        },
    }
    log.label(format!("engine={}", E::NAME));
    log.label(format!("ctor:{}:{}", kind, if expect_ok { "Ok" } else { "Err" }));
    log.nontrivial(c);
    log.sample(json!({"engine": E::NAME, "call": what, "expected": if expect_ok { "Ok" } else { "Err" }}));
    Ok(())
}

fn okerr(b: bool) -> &'static str {
    if b {
        "Ok"
    } else {
        "Err"
    }
}

fn ctor_sub<E: Engine>() -> Sub {
    sub(
        &format!("{}/grid", E::NAME),
        grid::<E>,
        (0, 0),
        |_: &RunCtx, f: Option<&Ctor>| Just(f.cloned().unwrap_or(Ctor::DegreeU8(0))),
        oracle::<E>,
    )
}

/// random large usize bit lengths / capacities on top of the grid
fn random_sub() -> Sub {
    sub(
        "F/random-large",
        crate::runner::no_fixed,
        (40_000, 500_000),
        |_: &RunCtx, _: Option<&()>| {
            prop_oneof![
                (any::<usize>(), 0usize..4).prop_map(|(bits, cap)| Ctor::Params { bits, cap, ext: 1 }),
                ((0u32..64).prop_map(|s| 1usize << s), 0usize..3).prop_map(|(bits, cap)| Ctor::Params { bits, cap, ext: 3 }),
                (0usize..8, any::<usize>()).prop_map(|(b, cap)| Ctor::Params { bits: 65 + b, cap, ext: 2 }),
                any::<usize>().prop_map(Ctor::DegreeUsize),
            ]
        },
        oracle::<F>,
    )
}

pub fn def() -> PropertyDef {
    PropertyDef {
        id: "C17",
        level: "exploration",
        rule: "Enumerated completely: RangeParameters::init for bit lengths 0..=130 x capacities 0..=130 (engine F) plus large powers of two \
               (2^16 .. 2^63, usize::MAX) and the valid points and their neighbours on Ristretto; RangeStatement::init for commitment counts \
               0..=17 x promise counts 0..=17 x seed {absent, ordinary, zero scalar, one} x capacity {1,2,4,8,16}; RangeWitness::init for the empty vector and every vector \
               of 1-4 openings with blinding counts 0..=8 each, plus shapes containing 9..300 blinding factors; \
               CommitmentOpening::r_len 0..=8; ExtendedMask::assign degree 1..=6 x length 0..=8; ExtensionDegree::try_from for all 256 u8 values \
               and usize in {0..=300, 2^(8k)+i, usize::MAX-5, usize::MAX}; commit with 0..=8 blinding factors x degree 1..=6 (both engines), and with generators whose fields were set by hand so that more masking bases are present than the declared degree (the declared degree decides). \
               proptest adds random usize bit lengths / capacities / degrees. Oracle: Ok/Err equals an independently written predicate from the \
               doc comments; on Ok the getters / fields return the inputs unchanged; Err is an Err, not a panic. Non-trivial = every grid point \
               (each is a distinct call)."
            .into(),
        assumptions: vec!["capacities above 130 with a VALID bit length are not constructed (a valid huge capacity is a resource question, not a domain question)".into()],
        exhaustive: true,
        subs: vec![ctor_sub::<F>(), ctor_sub::<R>(), random_sub()],
    }
}
