//! C07 Minimum-value promises mean value >= promise, and bind the proof.
use proptest::prelude::*;
use serde::{Deserialize, Serialize};
use serde_json::json;
use tari_bulletproofs_plus::{range_proof::VerifyAction, range_statement::RangeStatement};

use crate::{
    eng::{action_name, Engine, F, R},
    gen::{cfg_strategy, chacha, ctx_strategy, lattice, mask_of, triple_strategy, Cfg, Triple, TripleSpec, PCLASS},
    mutate::{pick, PubStatement},
    props::c02::{garbage_oracle, GarbageSpec, Shape},
    refimpl::{ref_prove, Cheat, RefWitness},
    runner::{guarded, setup, sub, CaseLog, PropertyDef, RunCtx, Sub, Tier},
};

#[derive(Clone, Debug, Serialize, Deserialize, PartialEq, Eq, Hash)]
pub enum Subst {
    Zero,
    Absent,
    Plus1,
    Minus1,
    Value,
    ValuePlus1,
    MaxInRange,
    TwoPowBits,
    U64Max,
    Uniform(u64),
    /// promise + 2^bits (same low bits)
    AddTwoPowBits,
    /// promise with one bit flipped (positions 0..63, also above the bit length)
    FlipBit(u8),
}
fn subst_strategy() -> impl Strategy<Value = Subst> {
    prop_oneof![
        2 => Just(Subst::Zero),
        2 => Just(Subst::Absent),
        3 => Just(Subst::Plus1),
        3 => Just(Subst::Minus1),
        2 => Just(Subst::Value),
        2 => Just(Subst::ValuePlus1),
        1 => Just(Subst::MaxInRange),
        2 => Just(Subst::TwoPowBits),
        1 => Just(Subst::U64Max),
        2 => any::<u64>().prop_map(Subst::Uniform),
        2 => Just(Subst::AddTwoPowBits),
        3 => (0u8..64).prop_map(Subst::FlipBit),
    ]
}

#[derive(Clone, Debug, Serialize, Deserialize)]
pub struct PromSpec {
    pub base: TripleSpec,
    pub j: u16,
    pub subst: Subst,
}

pub fn subst_oracle<E: Engine>(_ctx: &RunCtx, spec: &PromSpec, log: &mut CaseLog) -> Result<(), String> {
    E::reset_case();
    let t = Triple::<E>::build(&spec.base)?;
    let cfg = t.cfg;
    let proof = setup(guarded(|| t.prove()), "the prover refused or panicked on a valid witness (C01's subject)")?;
    let j = pick(spec.j, cfg.m);
    let old = t.promises[j];
    let v = t.values[j];
    let new: Option<u64> = match spec.subst {
        Subst::Zero => Some(0),
        Subst::Absent => None,
        Subst::Plus1 => Some(old.unwrap_or(0).wrapping_add(1)),
        Subst::Minus1 => Some(old.unwrap_or(0).wrapping_sub(1)),
        Subst::Value => Some(v),
        Subst::ValuePlus1 => Some(v.wrapping_add(1)),
        Subst::MaxInRange => Some(mask_of(cfg.bits)),
        Subst::TwoPowBits => {
            if cfg.bits < 64 {
                Some(1u64 << cfg.bits)
            } else {
                Some(u64::MAX)
            }
        },
        Subst::U64Max => Some(u64::MAX),
        Subst::Uniform(u) => Some(u & mask_of(cfg.bits)),
        Subst::AddTwoPowBits => {
            if cfg.bits < 64 {
                Some(old.unwrap_or(0).wrapping_add(1u64 << cfg.bits))
            } else {
                Some(old.unwrap_or(0) ^ (1u64 << 63))
            }
        },
        Subst::FlipBit(i) => Some(old.unwrap_or(0) ^ (1u64 << i)),
    };
    let mut promises = t.promises.clone();
    promises[j] = new;
    let equal = new.unwrap_or(0) == old.unwrap_or(0);
    let out_of_range = cfg.bits < 64 && new.unwrap_or(0) >> cfg.bits > 0;
    let st = RangeStatement::init(t.params.clone(), t.commitments.clone(), promises.clone(), t.seed);
    let st = match st {
        Ok(s) => s,
        Err(e) => {
            // a constructor refusing an out-of-range promise would be fine; refusing anything else is not
            if out_of_range {
                log.label("subst:constructor-refused-out-of-range");
                return Ok(());
            }
            return Err(format!("statement constructor refused promise vector {:?}: {:?}", promises, e));
        },
    };
    for act in [VerifyAction::VerifyOnly, VerifyAction::RecoverAndVerify] {
        let r = guarded(|| E::verify(&mut [t.transcript()], &[st.clone()], &[proof.clone()], act))?;
        if out_of_range && r.is_ok() {
            return Err(format!(
                "verifier ACCEPTED promise {:?} at position {} that does not fit in {} bits ({})",
                new,
                j,
                cfg.bits,
                action_name(act)
            ));
        }
        if equal != r.is_ok() {
            return Err(format!(
                "proof made under promise {:?} at position {} is {} under substituted promise {:?} in {} (value-wise equal: {})",
                old,
                j,
                if r.is_ok() { "ACCEPTED" } else { "rejected" },
                new,
                action_name(act),
                equal
            ));
        }
    }
    // the same question with the genuine (statement, proof) pair as a neighbour in one batch, in both orders: a batch is accepted
    // only if each member is, so a batch holding the substituted pair must be refused unless the promise vectors are equal
    let genuine = RangeStatement::init(t.params.clone(), t.commitments.clone(), t.promises.clone(), t.seed).map_err(crate::runner::skip_err)?;
    for act in [VerifyAction::VerifyOnly, VerifyAction::RecoverAndVerify] {
        for subst_first in [false, true] {
            let sts = if subst_first { [st.clone(), genuine.clone()] } else { [genuine.clone(), st.clone()] };
            let r = guarded(|| E::verify(&mut [t.transcript(), t.transcript()], &sts, &[proof.clone(), proof.clone()], act))?;
            if equal != r.is_ok() {
                return Err(format!(
                    "batch of the genuine pair and the same proof under substituted promise {:?} (made under {:?}, position {}; substituted pair {}) is {} in {} (value-wise equal: {})",
                    new,
                    old,
                    j,
                    if subst_first { "first" } else { "second" },
                    if r.is_ok() { "ACCEPTED" } else { "rejected" },
                    action_name(act),
                    equal
                ));
            }
        }
    }
    log.extra_evals += 4;
    // batches in which ANOTHER member's promises could be mistaken for this one's: (a) three members [genuine pair, an honest
    // two-commitment member whose second promise is the one the proof was made under, substituted pair]; (b) beyond the chunk
    // size: 256 copies of the genuine pair followed by the substituted pair. Both must be refused unless the vectors are equal.
    if cfg.m == 1 {
        use tari_bulletproofs_plus::{commitment_opening::CommitmentOpening, range_parameters::RangeParameters, range_witness::RangeWitness};
        let mut g = crate::gen::chacha(spec.base.bulk ^ 0xc07);
        let pv = [0u64, old.unwrap_or(0)];
        let pr: Vec<Vec<curve25519_dalek::scalar::Scalar>> = (0..2).map(|_| (0..cfg.ext).map(|_| crate::gen::rand_scalar(&mut g)).collect()).collect();
        let params2 = RangeParameters::init(cfg.bits, 2, t.params.pc_gens().clone()).map_err(crate::runner::skip_err)?;
        let pcs: Vec<E::P> = pv
            .iter()
            .zip(pr.iter())
            .map(|(v, r)| E::commit(params2.pc_gens(), &curve25519_dalek::scalar::Scalar::from(*v), r).map_err(crate::runner::skip_err))
            .collect::<Result<_, _>>()?;
        let pst = RangeStatement::init(params2, pcs, vec![None, old], None).map_err(crate::runner::skip_err)?;
        let pw = RangeWitness::init(pv.iter().zip(pr.iter()).map(|(v, r)| CommitmentOpening::new(*v, r.clone())).collect()).map_err(crate::runner::skip_err)?;
        let pproof = setup(
            guarded(|| E::prove(&mut t.transcript(), &pst, &pw, &mut crate::eng::RngSpec::ChaCha(spec.base.bulk).make())),
            "the prover refused or panicked on the honest two-commitment neighbour (C01's subject)",
        )?;
        for act in [VerifyAction::VerifyOnly, VerifyAction::RecoverAndVerify] {
            let r = guarded(|| {
                E::verify(
                    &mut [t.transcript(), t.transcript(), t.transcript()],
                    &[genuine.clone(), pst.clone(), st.clone()],
                    &[proof.clone(), pproof.clone(), proof.clone()],
                    act,
                )
            })?;
            if equal != r.is_ok() {
                return Err(format!(
                    "batch [genuine pair, honest member with promises [None, {:?}], same proof under substituted promise {:?}] is {} in {} (made under {:?}; value-wise equal: {})",
                    old,
                    new,
                    if r.is_ok() { "ACCEPTED" } else { "rejected" },
                    action_name(act),
                    old,
                    equal
                ));
            }
        }
        log.extra_evals += 2;
        let every = if E::IS_F { 16 } else { 128 };
        if cfg.bits <= 8 && spec.base.bulk % every == 0 {
            let k = 257usize;
            let mut ts: Vec<_> = (0..k).map(|_| t.transcript()).collect();
            let mut sts: Vec<_> = (0..k - 1).map(|_| genuine.clone()).collect();
            sts.push(st.clone());
            let proofs: Vec<_> = (0..k).map(|_| proof.clone()).collect();
            let r = guarded(|| E::verify(&mut ts, &sts, &proofs, VerifyAction::VerifyOnly))?;
            if equal != r.is_ok() {
                return Err(format!(
                    "batch of 256 copies of the genuine pair followed by the same proof under substituted promise {:?} (made under {:?}) is {} (value-wise equal: {})",
                    new,
                    old,
                    if r.is_ok() { "ACCEPTED" } else { "rejected" },
                    equal
                ));
            }
            log.label("subst:behind-256-copies");
            log.extra_evals += 1;
        }
    }
    let kind = format!("{:?}", spec.subst).split('(').next().unwrap().to_string();
    log.label(format!("engine={}", E::NAME));
    log.label(format!("subst:{}", kind));
    log.label(format!("subst:orig={}", PCLASS[t.spec.slots[j % t.spec.slots.len()].pclass as usize]));
    log.label(format!("subst:verdict={}", if equal { "accept(equal)" } else { "reject" }));
    log.label(format!("subst:position={}", if j == 0 { "0" } else { ">=1" }));
    log.labels(t.classes());
    log.nontrivial(&(kind.clone(), old.is_some(), equal, j.min(3), cfg.bits, cfg.m, spec.base.bulk));
    log.sample(json!({"engine": E::NAME, "cfg": cfg, "position": j, "value": v, "promise_at_proving": old, "promise_at_verification": new,
        "accepted": equal, "out_of_range": out_of_range}));
    Ok(())
}

// prover boundary at each position of an aggregate: promise == value is accepted, promise == value + 1 refused,
// with every other position kept valid
#[derive(Clone, Debug, Serialize, Deserialize)]
pub struct BoundarySpec {
    pub base: TripleSpec,
    pub j: u16,
}

pub fn boundary_oracle<E: Engine>(_ctx: &RunCtx, spec: &BoundarySpec, log: &mut CaseLog) -> Result<(), String> {
    E::reset_case();
    let t = Triple::<E>::build(&spec.base)?;
    let cfg = t.cfg;
    let j = pick(spec.j, cfg.m);
    let v = t.values[j];
    // promise == value
    let mut p_eq = t.promises.clone();
    p_eq[j] = Some(v);
    let st_eq = RangeStatement::init(t.params.clone(), t.commitments.clone(), p_eq, t.seed).map_err(crate::runner::skip_err)?;
    let proof = guarded(|| E::prove(&mut t.transcript(), &st_eq, &t.w, &mut spec.base.rng.make()))?
        .map_err(|e| format!("prover refused promise == value at position {}: {:?}", j, e))?;
    guarded(|| E::verify(&mut [t.transcript()], &[st_eq.clone()], &[proof.clone()], VerifyAction::VerifyOnly))?
        .map_err(|e| format!("proof with promise == value at position {} rejected: {:?}", j, e))?;
    // promise == value + 1 at position j only
    if v < u64::MAX {
        let mut p_gt = t.promises.clone();
        p_gt[j] = Some(v + 1);
        let st_gt = RangeStatement::init(t.params.clone(), t.commitments.clone(), p_gt.clone(), t.seed).map_err(crate::runner::skip_err)?;
        let r = guarded(|| E::prove(&mut t.transcript(), &st_gt, &t.w, &mut spec.base.rng.make()))?;
        if r.is_ok() {
            return Err(format!(
                "prover ACCEPTED value {} < promise {} at position {} of {} (other positions valid)",
                v,
                v + 1,
                j,
                cfg.m
            ));
        }
        // semantic side: the reference prover "proving" value - promise = -1 must not be accepted
        if cfg.nm() > 1 {
            let mut ps = PubStatement::<E>::of(&t);
            ps.promises = p_gt;
            let w = RefWitness {
                values: t.values.clone(),
                blindings: t.blindings.clone(),
            };
            let pf = ref_prove(
                &mut t.transcript(),
                &ps.ref_stmt(),
                &w,
                None,
                &mut chacha(spec.base.bulk ^ 7),
                Cheat::Honest,
                0,
            );
            let st = ps.statement(None)?;
            if let Ok(lp) = guarded(|| tari_bulletproofs_plus::range_proof::RangeProof::<E::P>::from_bytes(&pf.encode()))? {
                if guarded(|| E::verify(&mut [ps.ctx.transcript()], &[st.clone()], &[lp], VerifyAction::VerifyOnly))?.is_ok() {
                    return Err(format!("verifier ACCEPTED a reference-prover proof for value {} under promise {}", v, v + 1));
                }
            }
        }
    }
    // a promise that does not fit in the bit length must be refused EVEN IF the relation holds: the reference prover proves
    // value' = 2^bits + small under promise 2^bits at position j (value' - promise fits), the other positions keep
    // promises that do fit
    if cfg.bits < 64 && cfg.nm() > 1 {
        let mut ps = PubStatement::<E>::of(&t);
        let big = (1u64 << cfg.bits) + (v & crate::gen::mask_of(cfg.bits));
        let mut vals = t.values.clone();
        vals[j] = big;
        ps.promises[j] = Some(1u64 << cfg.bits);
        for (i, p) in ps.promises.iter_mut().enumerate() {
            if i != j && p.is_none() && vals[i] >= 1 {
                *p = Some(1);
            }
        }
        ps.commitments[j] = crate::refimpl::Stmt::<E::P>::commit(&ps.h, &ps.g, &curve25519_dalek::scalar::Scalar::from(big), &t.blindings[j]);
        let w = RefWitness {
            values: vals,
            blindings: t.blindings.clone(),
        };
        let pf = ref_prove(&mut t.transcript(), &ps.ref_stmt(), &w, None, &mut chacha(spec.base.bulk ^ 9), Cheat::Honest, 0);
        if let Ok(st) = ps.statement(None) {
            if let Ok(lp) = guarded(|| tari_bulletproofs_plus::range_proof::RangeProof::<E::P>::from_bytes(&pf.encode()))? {
                for act in [VerifyAction::VerifyOnly, VerifyAction::RecoverAndVerify] {
                    if guarded(|| E::verify(&mut [ps.ctx.transcript()], &[st.clone()], &[lp.clone()], act))?.is_ok() {
                        return Err(format!(
                            "verifier ACCEPTED promise 2^{} at position {} of {} (it does not fit in the bit length), next to promises that fit",
                            cfg.bits, j, cfg.m
                        ));
                    }
                }
            }
        }
    }
    log.label(format!("engine={}", E::NAME));
    log.label(format!("boundary:position={}", if j == 0 { "0" } else { ">=1" }));
    log.labels(t.classes());
    log.nontrivial(&(j.min(3), cfg.bits, cfg.m, cfg.ext, v == 0, v == mask_of(cfg.bits)));
    log.sample(json!({"engine": E::NAME, "kind": "prover-boundary", "cfg": cfg, "position": j, "value": v}));
    Ok(())
}

fn sizes<E: Engine>(ctx: &RunCtx) -> (usize, usize) {
    match (E::IS_F, ctx.tier) {
        (true, Tier::Quick) => (512, 32),
        (true, Tier::Thorough) => (2048, 128),
        (false, Tier::Quick) => (128, 16),
        (false, Tier::Thorough) => (512, 32),
    }
}
fn cfgs<E: Engine>(ctx: &RunCtx, fixed: Option<&Cfg>) -> BoxedStrategy<Cfg> {
    let (s, m) = sizes::<E>(ctx);
    match fixed {
        Some(c) => Just(*c).boxed(),
        None => cfg_strategy(s, m),
    }
}
fn lat<E: Engine>(ctx: &RunCtx) -> Vec<Cfg> {
    let (s, m) = sizes::<E>(ctx);
    lattice(s, m)
}

fn subst_sub<E: Engine>(cases: (usize, usize)) -> Sub {
    sub(
        &format!("{}/substituted-promise", E::NAME),
        lat::<E>,
        cases,
        |ctx: &RunCtx, f: Option<&Cfg>| {
            (triple_strategy(cfgs::<E>(ctx, f)), any::<u16>(), subst_strategy()).prop_map(|(base, j, subst)| PromSpec { base, j, subst })
        },
        subst_oracle::<E>,
    )
}
fn boundary_sub<E: Engine>(cases: (usize, usize)) -> Sub {
    sub(
        &format!("{}/prover-boundary", E::NAME),
        lat::<E>,
        cases,
        |ctx: &RunCtx, f: Option<&Cfg>| (triple_strategy(cfgs::<E>(ctx, f)), any::<u16>()).prop_map(|(base, j)| BoundarySpec { base, j }),
        boundary_oracle::<E>,
    )
}

pub fn def() -> PropertyDef {
    PropertyDef {
        id: "C07",
        level: "exploration",
        rule: "Three generators. (1) substituted promise: an honest proof made under promise vector p (classes None, 0, v, v-1, v/3, uniform) is \
               verified under a vector differing in one generated position j by {0, None, p+-1, v, v+1, 2^bits-1, 2^bits, u64::MAX, uniform}, in \
               VerifyOnly and RecoverAndVerify; oracle: Ok <=> value-wise equal (None == 0), and any promise >= 2^bits is refused; the same verdict is required of the two-member batches [genuine pair, same proof under the substituted vector] in both orders and both modes, of the three-member batch with an honest two-commitment member in between whose second promise is the original one, and (small bit lengths, a sixteenth of the cases) of the batch of 256 copies of the genuine pair followed by the substituted pair. (2) prover \
               boundary at each position of an aggregate with all other positions valid: promise == value proves and verifies, promise == value+1 \
               is refused, the reference prover's proof of value - promise = -1 is rejected, and a promise of 2^bits is refused even when the reference prover supplies a proof for which the relation holds (value' = 2^bits + small) and the other promises of the aggregate fit. (3) engine F garbage proofs with a nonzero promise \
               at EVERY position: the h-coordinate (and every other coordinate) of the verifier's final equation equals weight x the reference \
               relation, whose only promise-dependent term is e^2 y^(nm+1) sum_j z^(2(j+1)) p_j. Non-trivial = every substitution / boundary / \
               garbage case; distinct by (substitution kind, original class, equality, position class, bits, m, case)."
            .into(),
        assumptions: vec!["how each promise enters the Fiat-Shamir transcript is decided separately by C04 (promise perturbations)".into()],
        exhaustive: false,
        subs: vec![
            subst_sub::<F>((30_000, 400_000)),
            subst_sub::<R>((3000, 25_000)),
            boundary_sub::<F>((10_000, 120_000)),
            boundary_sub::<R>((1200, 10_000)),
            sub(
                "F/garbage-h-coordinate",
                lat::<F>,
                (8000, 100_000),
                |ctx: &RunCtx, f: Option<&Cfg>| {
                    (cfgs::<F>(ctx, f), any::<u64>(), ctx_strategy(), 0u8..4).prop_map(|(cfg, bulk, ctx, terms)| GarbageSpec {
                        cfg,
                        bulk,
                        ctx,
                        terms,
                        all_promises: true,
                        shape: Shape::Correct,
                    })
                },
                garbage_oracle,
            ),
        ],
    }
}
