//! C16 Decoding and verification never panic on untrusted input, and do work proportional to the input size.
use merlin::Transcript;
use proptest::prelude::*;
use rand_core::RngCore;
use serde::{Deserialize, Serialize};
use serde_json::json;
use tari_bulletproofs_plus::{
    range_proof::{RangeProof, VerifyAction},
    range_statement::RangeStatement,
};

use crate::{
    alloc,
    eng::{action_name, Engine, F, R},
    fp,
    gen::{chacha, ctx_strategy, mask_of, rand_scalar, slot_strategy, Cfg, CtxSpec, SeedSpec, SlotSpec, Triple, TripleSpec, BITS},
    mutate::{fresh_point, proof_mut, ProofMut, UNDECODABLE},
    refimpl::{Grp, Proof},
    runner::{guarded, setup, no_fixed, sub, CaseLog, PropertyDef, RunCtx, Sub},
};

#[derive(Clone, Debug, Serialize, Deserialize)]
pub enum Src {
    /// honest proof for this member's own statement
    Own,
    /// honest proof made for another configuration
    Other { bits_idx: u8, m_log: u8, ext: usize },
    /// well-formed garbage: `rounds` L/R pairs, `d` response scalars, points of class `pts`
    Garbage { rounds: u8, d: u8, pts: u8 },
    /// own proof with 1-3 mutation operators
    Mutated(Vec<ProofMut>),
}

#[derive(Clone, Debug, Serialize, Deserialize)]
pub struct HMember {
    pub bits_idx: u8,
    pub m_log: u8,
    pub cap_log: u8,
    pub ext: usize,
    pub slots: Vec<SlotSpec>,
    pub seed: bool,
    pub src: Src,
    /// 0: keep, 1: promise = 2^bits - 1, 2: 2^bits, 3: u64::MAX (substituted at one position)
    pub promise_hack: u8,
    pub bulk: u64,
}

#[derive(Clone, Debug, Serialize, Deserialize)]
pub struct HostileSpec {
    pub members: Vec<HMember>,
    /// all statements share the first member's bit length and degree (deeper code is reached)
    pub consistent: bool,
    pub mode: u8,
    /// 0: none, 1: one transcript fewer, 2: one transcript more, 3: one statement fewer, 4: one proof fewer
    pub ragged: u8,
    pub ctx: CtxSpec,
}

fn src_strategy() -> impl Strategy<Value = Src> {
    prop_oneof![
        2 => Just(Src::Own),
        3 => (0u8..7, 0u8..=4, 1usize..=6).prop_map(|(bits_idx, m_log, ext)| Src::Other { bits_idx, m_log, ext }),
        4 => (prop_oneof![8 => 1u8..=12, 1 => 30u8..=34, 1 => 62u8..=70], 1u8..=6, 0u8..5).prop_map(|(rounds, d, pts)| Src::Garbage { rounds, d, pts }),
        4 => prop::collection::vec(proof_mut(), 1..=3).prop_map(Src::Mutated),
    ]
}
fn member_strategy() -> impl Strategy<Value = HMember> {
    (
        0u8..7,
        0u8..=4,
        0u8..=2,
        1usize..=6,
        prop::collection::vec(slot_strategy(), 1..=2),
        any::<bool>(),
        src_strategy(),
        prop_oneof![5 => Just(0u8), 1 => Just(1u8), 1 => Just(2u8), 1 => Just(3u8)],
        any::<u64>(),
    )
        .prop_map(|(bits_idx, m_log, cap_log, ext, slots, seed, src, promise_hack, bulk)| HMember {
            bits_idx,
            m_log,
            cap_log,
            ext,
            slots,
            seed,
            src,
            promise_hack,
            bulk,
        })
}
fn hostile_strategy() -> impl Strategy<Value = HostileSpec> {
    (
        prop::collection::vec(member_strategy(), 1..=5),
        prop::bool::weighted(0.7),
        0u8..3,
        prop_oneof![8 => Just(0u8), 1 => Just(1u8), 1 => Just(2u8), 1 => Just(3u8), 1 => Just(4u8)],
        ctx_strategy(),
    )
        .prop_map(|(members, consistent, mode, ragged, ctx)| HostileSpec {
            members,
            consistent,
            mode,
            ragged,
            ctx,
        })
}

fn honest<E: Engine>(cfg: Cfg, hm: &HMember, ctx: &CtxSpec, seed: bool) -> Result<(Triple<E>, RangeProof<E::P>), String> {
    let spec = TripleSpec {
        cfg,
        slots: hm.slots.clone(),
        ctx: ctx.clone(),
        rng: crate::eng::RngSpec::ChaCha(hm.bulk),
        seed: if seed { SeedSpec::Uniform(hm.bulk) } else { SeedSpec::None },
        bulk: hm.bulk,
    };
    let t = Triple::<E>::build(&spec)?;
    let p = setup(guarded(|| t.prove()), "the prover refused or panicked on a valid witness (C01's subject)")?;
    Ok((t, p))
}

pub fn garbage_bytes<E: Engine>(rounds: u8, d: u8, pts: u8, bulk: u64) -> Vec<u8> {
    let mut rng = chacha(bulk);
    let pt = |rng: &mut rand_chacha::ChaCha12Rng| -> [u8; 32] {
        match pts {
            0 => fresh_point::<E::P>(rng.next_u64()).enc(),
            1 => [0u8; 32],
            2 => UNDECODABLE,
            3 => {
                // low-order-looking / small encodings
                let mut b = [0u8; 32];
                b[0] = (rng.next_u32() % 8) as u8;
                b
            },
            _ => {
                let mut b = [0u8; 32];
                rng.fill_bytes(&mut b);
                b
            },
        }
    };
    let pf = Proof {
        ext: d,
        d1: (0..d).map(|_| rand_scalar(&mut rng).to_bytes()).collect(),
        a: pt(&mut rng),
        a1: pt(&mut rng),
        b: pt(&mut rng),
        r1: rand_scalar(&mut rng).to_bytes(),
        s1: rand_scalar(&mut rng).to_bytes(),
        l: (0..rounds).map(|_| pt(&mut rng)).collect(),
        r: (0..rounds).map(|_| pt(&mut rng)).collect(),
    };
    pf.encode()
}

/// constants of the work bound, fixed at >= 16x the largest ratio measured on the unchanged tree (thorough generator)
pub const OPS_PER_UNIT: u64 = 400;
pub const OPS_BASE: u64 = 200_000;
pub const BYTES_PER_UNIT: u64 = 120_000;
pub const BYTES_BASE: u64 = 4_000_000;
pub const LONG_OPS_PER_UNIT: u64 = 100;
pub const LONG_OPS_BASE: u64 = 100_000;
pub const LONG_BYTES_PER_UNIT: u64 = 40_000;
pub const LONG_BYTES_BASE: u64 = 4_000_000;

pub fn oracle<E: Engine>(_ctx: &RunCtx, spec: &HostileSpec, log: &mut CaseLog) -> Result<(), String> {
    E::reset_case();
    let first = &spec.members[0];
    let mut sts: Vec<RangeStatement<E::P>> = vec![];
    let mut proofs: Vec<RangeProof<E::P>> = vec![];
    let mut size_units = 0u64;
    let mut table = 0u64;
    let mut kinds = vec![];
    for hm in &spec.members {
        let (bits_idx, ext) = if spec.consistent { (first.bits_idx, first.ext) } else { (hm.bits_idx, hm.ext) };
        let bits = BITS[bits_idx as usize % BITS.len()];
        let mut m = 1usize << hm.m_log;
        while bits * m > 256 && m > 1 {
            m /= 2;
        }
        let cap = (m << hm.cap_log).min((512 / bits).max(m));
        let cfg = Cfg { bits, m, cap, ext };
        let (t, own) = honest::<E>(cfg, hm, &spec.ctx, hm.seed && m == 1)?;
        // statement, possibly with a promise at / above 2^bits
        let mut promises = t.promises.clone();
        if hm.promise_hack != 0 {
            let j = (hm.bulk as usize) % m;
            promises[j] = Some(match hm.promise_hack {
                1 => mask_of(bits),
                2 => {
                    if bits < 64 {
                        1u64 << bits
                    } else {
                        u64::MAX
                    }
                },
                _ => u64::MAX,
            });
        }
        // hostile constructor arguments: an empty / short promise vector and an impossible number of commitments must be refused by the validating constructor; if it
        // is not, whatever statement comes out is handed to the verifier like any other
        let mut commitments = t.commitments.clone();
        let mut seed = t.seed;
        match hm.bulk % 11 {
            0 => promises.clear(),
            1 if promises.len() > 1 => {
                promises.pop();
            },
            // no commitment at all, three of them, twice the capacity: counts the validating constructor has to refuse
            2 => {
                commitments.clear();
                promises.clear();
                seed = if hm.bulk & 16 == 0 { None } else { seed };
            },
            3 => {
                commitments = (0..3).map(|i| t.commitments[i % m].clone()).collect();
                promises = (0..3).map(|i| t.promises[i % m]).collect();
                seed = None;
            },
            4 => {
                commitments = (0..2 * cap).map(|i| t.commitments[i % m].clone()).collect();
                promises = (0..2 * cap).map(|i| t.promises[i % m]).collect();
                seed = None;
            },
            _ => {},
        }
        // a commitment-generator set assembled by hand (its fields are public) whose number of masking bases disagrees with the
        // degree it declares: the parameter constructor is the validating step it passes through
        let mut params = t.params.clone();
        // (one member in ten: a batch with such a member is refused early, which would otherwise crowd out the deeper paths)
        let gens_hack = (hm.bulk >> 8) % 40;
        if gens_hack < 4 {
            let mut pc = E::pedersen(ext);
            match gens_hack {
                0 => {
                    pc.g_base_vec.pop();
                    pc.g_base_compressed_vec.pop();
                },
                1 => {
                    let (x, y) = (pc.g_base_vec[0].clone(), pc.g_base_compressed_vec[0]);
                    pc.g_base_vec.push(x);
                    pc.g_base_compressed_vec.push(y);
                },
                2 => {
                    pc.g_base_vec.clear();
                    pc.g_base_compressed_vec.clear();
                },
                _ => {
                    pc.g_base_vec.pop();
                },
            }
            if let Ok(p) = guarded(|| tari_bulletproofs_plus::range_parameters::RangeParameters::init(bits, cap, pc))
                .map_err(|e| format!("{} in RangeParameters::init", e))?
            {
                params = p;
                kinds.push("hand-assembled generators");
            }
        }
        let st = match guarded(|| RangeStatement::init(params, commitments, promises, seed))
            .map_err(|e| format!("{} in RangeStatement::init", e))?
        {
            Ok(s) => s,
            Err(_) => t.st.clone(),
        };
        let bytes: Vec<u8> = match &hm.src {
            Src::Own => {
                kinds.push("own");
                own.to_bytes()
            },
            Src::Other { bits_idx, m_log, ext } => {
                kinds.push("other-config");
                let ob = BITS[*bits_idx as usize % BITS.len()];
                let mut om = 1usize << m_log;
                while ob * om > 256 && om > 1 {
                    om /= 2;
                }
                let ocfg = Cfg {
                    bits: ob,
                    m: om,
                    cap: om,
                    ext: *ext,
                };
                honest::<E>(ocfg, hm, &spec.ctx, false)?.1.to_bytes()
            },
            Src::Garbage { rounds, d, pts } => {
                kinds.push("garbage");
                garbage_bytes::<E>(*rounds, *d, *pts, hm.bulk)
            },
            Src::Mutated(ms) => {
                kinds.push("mutated");
                let mut b = own.to_bytes();
                if cfg.nm() > 1 {
                    for mu in ms {
                        b = mu.apply::<E::P>(&b, t.params.h_base(), bits);
                    }
                }
                b
            },
        };
        // decoding returns a value or an error
        let dec = guarded(|| RangeProof::<E::P>::from_bytes(&bytes)).map_err(|e| format!("{} in from_bytes on a {}-byte string", e, bytes.len()))?;
        let proof = match dec {
            Ok(p) => p,
            Err(_) => {
                kinds.push("undecodable->own");
                own
            },
        };
        size_units += (bits * m) as u64 + ((bytes.len() as u64) / 32);
        table = table.max(2 * (bits * cap) as u64);
        sts.push(st);
        proofs.push(proof);
    }
    let mut ts: Vec<Transcript> = (0..sts.len()).map(|_| spec.ctx.transcript()).collect();
    match spec.ragged {
        1 => {
            ts.pop();
        },
        2 => ts.push(spec.ctx.transcript()),
        3 => {
            sts.pop();
        },
        4 => {
            proofs.pop();
        },
        _ => {},
    }
    let action = [VerifyAction::VerifyOnly, VerifyAction::RecoverAndVerify, VerifyAction::RecoverOnly][spec.mode as usize % 3];
    let s_total = size_units + table;
    if E::IS_F {
        fp::reset_ops();
        alloc::count_start();
    }
    let r = guarded(|| E::verify(&mut ts, &sts, &proofs, action));
    let (bytes_req, max_req, _) = if E::IS_F { alloc::count_stop() } else { (0, 0, 0) };
    let ops = if E::IS_F { fp::ops() } else { 0 };
    let r = r.map_err(|e| {
        format!(
            "{} in verify_batch (batch of {}, mode {}, member kinds {:?})",
            e,
            spec.members.len(),
            action_name(action),
            kinds
        )
    })?;
    if E::IS_F {
        let ops_bound = OPS_PER_UNIT * s_total + OPS_BASE;
        let bytes_bound = BYTES_PER_UNIT * s_total + BYTES_BASE;
        if std::env::var("VERIF_C16_CALIBRATE").is_ok() {
            eprintln!("CAL ops/S={:.1} bytes/S={:.1} S={} max_req={}", ops as f64 / s_total as f64, bytes_req as f64 / s_total as f64, s_total, max_req);
        }
        if ops > ops_bound {
            return Err(format!(
                "verification work is not proportional to the input: {} coordinate operations for input size {} (bound {})",
                ops, s_total, ops_bound
            ));
        }
        if bytes_req > bytes_bound || max_req > bytes_bound {
            return Err(format!(
                "verification allocates out of proportion to the input: {} bytes requested (largest single request {}) for input size {} (bound {})",
                bytes_req, max_req, s_total, bytes_bound
            ));
        }
    }
    let mismatch = kinds.iter().any(|k| *k != "own");
    log.label(format!("engine={}", E::NAME));
    log.label(format!("hostile:batch={}", spec.members.len()));
    log.label(format!("hostile:mode={}", action_name(action)));
    log.label(format!("hostile:ragged={}", spec.ragged));
    log.label(format!("hostile:consistent={}", spec.consistent));
    log.label(format!("hostile:result={}", if r.is_ok() { "Ok" } else { "Err" }));
    for k in &kinds {
        log.label(format!("hostile:src={}", k));
    }
    if mismatch || spec.ragged != 0 || spec.members.len() > 1 {
        log.nontrivial(&(kinds.clone(), spec.mode % 3, spec.members.len(), spec.ragged, spec.consistent, first.bulk));
    }
    log.sample(json!({"engine": E::NAME, "batch": spec.members.len(), "kinds": kinds, "mode": action_name(action), "ragged": spec.ragged,
        "consistent": spec.consistent, "result_ok": r.is_ok(), "input_size": s_total, "ops": ops, "bytes_requested": bytes_req}));
    Ok(())
}

/// raw byte strings into the decoder (panic-freedom; the acceptance set itself is C15's subject)
#[derive(Clone, Debug, Serialize, Deserialize)]
pub struct RawSpec {
    pub bytes: Vec<u8>,
}
pub fn raw_oracle<E: Engine>(_ctx: &RunCtx, spec: &RawSpec, log: &mut CaseLog) -> Result<(), String> {
    let r = guarded(|| RangeProof::<E::P>::from_bytes(&spec.bytes)).map_err(|e| format!("{} in from_bytes", e))?;
    let _ = guarded(|| RangeProof::<E::P>::extension_degree_from_proof_bytes(&spec.bytes)).map_err(|e| format!("{} in extension_degree_from_proof_bytes", e))?;
    let mut framed = (spec.bytes.len() as u64).to_le_bytes().to_vec();
    framed.extend_from_slice(&spec.bytes);
    guarded(|| bincode::deserialize::<RangeProof<E::P>>(&framed).is_ok()).map_err(|e| format!("{} in serde deserialization", e))?;
    // also a lying length prefix
    let mut lying = (u64::MAX / 2).to_le_bytes().to_vec();
    lying.extend_from_slice(&spec.bytes);
    guarded(|| bincode::deserialize::<RangeProof<E::P>>(&lying).is_ok()).map_err(|e| format!("{} in serde deserialization (lying length)", e))?;
    log.label(format!("raw:len={}", match spec.bytes.len() {
        0 => "0",
        1..=32 => "1-32",
        33..=256 => "33-256",
        _ => ">256",
    }));
    log.label(format!("raw:decoded={}", r.is_ok()));
    if spec.bytes.len() > 1 {
        log.nontrivial(&spec.bytes);
    }
    log.sample(json!({"engine": E::NAME, "kind": "raw-bytes", "len": spec.bytes.len(), "decoded": r.is_ok()}));
    Ok(())
}

/// work bound on LONG batches: a cost that grows faster than linearly in the number of members is invisible in batches of five
pub fn long_work_oracle(_ctx: &RunCtx, spec: &crate::props::c01::LongSpec, log: &mut CaseLog) -> Result<(), String> {
    use crate::props::c03::{build_member, verify_members, Member};
    F::reset_case();
    let bits = BITS[spec.bits_idx as usize % 4];
    let pool: Vec<Member<F>> = spec
        .pool
        .iter()
        .map(|pm| build_member::<F>(bits, spec.ext, pm, bits.max(16)))
        .collect::<Result<_, _>>()?;
    let k = spec.k as usize;
    let mut rng = chacha(spec.order);
    let seq: Vec<&Member<F>> = (0..k).map(|_| &pool[(rng.next_u32() as usize) % pool.len()]).collect();
    let action = [VerifyAction::VerifyOnly, VerifyAction::RecoverAndVerify, VerifyAction::RecoverOnly][spec.mode as usize % 3];
    let mut s_total = 0u64;
    let mut table = 0u64;
    for m in &seq {
        s_total += (bits * m.m) as u64 + (m.proof.to_bytes().len() as u64) / 32;
        table = table.max(2 * (bits * m.cap) as u64);
    }
    s_total += table;
    fp::reset_ops();
    alloc::count_start();
    let r = verify_members::<F>(&seq, action);
    let (bytes_req, max_req, _) = alloc::count_stop();
    let ops = fp::ops();
    // (that an all-honest batch is accepted is C01's / C03's subject; a refusal leaves nothing to measure here)
    crate::runner::setup(r, "the all-honest long batch is rejected (C01's / C03's subject)")?;
    // honest long batches measure at most 8.2 operations and 3.5 kB per unit (200 batches, k up to 520); the hostile-input bound
    // above is kept loose for small inputs, this one is twelve times the measured maximum
    let ops_bound = LONG_OPS_PER_UNIT * s_total + LONG_OPS_BASE;
    let bytes_bound = LONG_BYTES_PER_UNIT * s_total + LONG_BYTES_BASE;
    if std::env::var("VERIF_C16_CALIBRATE").is_ok() {
        eprintln!("CAL-LONG ops/S={:.1} bytes/S={:.1} S={} k={} max_req={}", ops as f64 / s_total as f64, bytes_req as f64 / s_total as f64, s_total, k, max_req);
    }
    if ops > ops_bound {
        return Err(format!(
            "verification work is not proportional to the input: {} coordinate operations for a batch of {} (input size {}, bound {})",
            ops, k, s_total, ops_bound
        ));
    }
    if bytes_req > bytes_bound || max_req > bytes_bound {
        return Err(format!(
            "verification allocates out of proportion to the input: {} bytes requested for a batch of {} (input size {}, bound {})",
            bytes_req, k, s_total, bytes_bound
        ));
    }
    log.label("engine=F");
    log.label(format!("long-work:k={}", if k > 256 { ">256" } else { "<=256" }));
    log.nontrivial(&(k, bits, spec.ext, spec.order));
    log.sample(json!({"kind": "work bound on a long batch", "k": k, "input_size": s_total, "ops": ops, "bytes_requested": bytes_req}));
    Ok(())
}

// ---------------------------------------------------------------------------------------------------------------------
// statements with MORE COMMITMENTS than the batch chunk size (cheap at one or two bits): alone and behind a small member, with
// the honest proof, with the proof of the small member, and with garbage

#[derive(Clone, Debug, Serialize, Deserialize)]
pub struct ManySpec {
    pub two_bits: bool,
    /// 0 => 256, 1 => 512, 2 => 1024 commitments
    pub m_sel: u8,
    pub ext: usize,
    pub slots: Vec<SlotSpec>,
    pub ctx: CtxSpec,
    /// 0: honest proof, 1: proof of the small member, 2: garbage with the right number of rounds, 3: garbage with 3 rounds
    pub proof_kind: u8,
    pub behind_small: bool,
    pub mode: u8,
    pub bulk: u64,
}

pub fn many_oracle<E: Engine>(_ctx: &RunCtx, spec: &ManySpec, log: &mut CaseLog) -> Result<(), String> {
    E::reset_case();
    let bits = if spec.two_bits { 2 } else { 1 };
    let m = [256usize, 512, 1024][spec.m_sel as usize % 3];
    let hm = HMember {
        bits_idx: 0,
        m_log: 0,
        cap_log: 0,
        ext: spec.ext,
        slots: spec.slots.clone(),
        seed: false,
        src: Src::Own,
        promise_hack: 0,
        bulk: spec.bulk,
    };
    let (big, big_proof) = honest::<E>(Cfg { bits, m, cap: m, ext: spec.ext }, &hm, &spec.ctx, false)?;
    let (small, small_proof) = honest::<E>(Cfg { bits, m: 1, cap: 1, ext: spec.ext }, &hm, &spec.ctx, false)?;
    let rounds = (bits * m).trailing_zeros() as u8;
    let proof = match spec.proof_kind % 4 {
        0 => big_proof.clone(),
        1 => small_proof.clone(),
        k => {
            let b = garbage_bytes::<E>(if k == 2 { rounds } else { 3 }, spec.ext as u8, 0, spec.bulk);
            match guarded(|| RangeProof::<E::P>::from_bytes(&b)).map_err(|e| format!("{} in from_bytes", e))? {
                Ok(p) => p,
                Err(_) => big_proof.clone(),
            }
        },
    };
    let action = [VerifyAction::VerifyOnly, VerifyAction::RecoverAndVerify, VerifyAction::RecoverOnly][spec.mode as usize % 3];
    let (mut ts, sts, proofs) = if spec.behind_small {
        (vec![spec.ctx.transcript(), spec.ctx.transcript()], vec![small.st.clone(), big.st.clone()], vec![small_proof, proof])
    } else {
        (vec![spec.ctx.transcript()], vec![big.st.clone()], vec![proof])
    };
    let r = guarded(|| E::verify(&mut ts, &sts, &proofs, action))
        .map_err(|e| format!("{} in verify_batch with a statement of {} commitments ({} bits, proof kind {}, behind a small member: {})", e, m, bits, spec.proof_kind % 4, spec.behind_small))?;
    if spec.proof_kind % 4 == 0 && action != VerifyAction::RecoverOnly && r.is_err() {
        // (completeness is C01's subject; noted, not judged)
        log.label("many:honest-refused");
    }
    log.label(format!("engine={}", E::NAME));
    log.label(format!("many:commitments={}", m));
    log.label(format!("many:proof-kind={}", spec.proof_kind % 4));
    log.nontrivial(&(bits, m, spec.ext, spec.proof_kind % 4, spec.behind_small, spec.mode % 3));
    log.sample(json!({"engine": E::NAME, "kind": "statement with more commitments than the chunk size", "bits": bits, "commitments": m, "proof_kind": spec.proof_kind % 4,
        "behind_small_member": spec.behind_small, "mode": action_name(action), "result": if r.is_ok() { "Ok" } else { "Err" }}));
    Ok(())
}

fn many_sub<E: Engine>(cases: (usize, usize)) -> Sub {
    sub(
        &format!("{}/more-commitments-than-the-chunk-size", E::NAME),
        no_fixed,
        cases,
        |_: &RunCtx, _: Option<&()>| {
            (any::<bool>(), 0u8..3, 1usize..=6, prop::collection::vec(slot_strategy(), 1..=2), ctx_strategy(), 0u8..4, any::<bool>(), 0u8..3, any::<u64>()).prop_map(
                |(two_bits, m_sel, ext, slots, ctx, proof_kind, behind_small, mode, bulk)| ManySpec {
                    two_bits,
                    m_sel,
                    ext,
                    slots,
                    ctx,
                    proof_kind,
                    behind_small,
                    mode,
                    bulk,
                },
            )
        },
        many_oracle::<E>,
    )
}

fn hostile_sub<E: Engine>(cases: (usize, usize)) -> Sub {
    sub(
        &format!("{}/hostile-batches", E::NAME),
        no_fixed,
        cases,
        |_: &RunCtx, _: Option<&()>| hostile_strategy(),
        oracle::<E>,
    )
}

pub fn def() -> PropertyDef {
    PropertyDef {
        id: "C16",
        level: "exploration",
        rule: "A case is a batch of 1-5 members; each member has a statement built through the validating constructors (all bit lengths, \
               aggregation 1-16, capacity m..4m, degrees 1-6, optionally a promise at 2^bits-1 / 2^bits / u64::MAX) and a proof that is its own \
               honest proof, an honest proof of ANOTHER configuration (other bit length, aggregation, degree), well-formed garbage with 1-12 / \
               30-34 / 62-70 rounds and 1-6 response scalars whose points are fresh / identity / undecodable / small encodings / random bytes, or \
               its own proof under 1-3 mutation operators; statements either share bit length and degree or not; optionally one of the three \
               input sequences is one element short or long; all three modes. Plus raw byte strings (0-600 bytes) into from_bytes, the degree \
               helper and serde (also with a lying length prefix). Oracle: every call returns Ok or Err under catch_unwind (the whole check runs \
               in a child process, so an abort or kill is seen and attributed); over engine F the number of coordinate operations and the bytes \
               requested from the allocator (and the largest single request) stay below a fixed linear bound in the input size S = sum \
               bits*m + generator table + proof elements. Non-trivial = proof shape != statement shape, or a ragged batch, or a batch of > 1; \
               distinct by (member kinds, mode, batch size, raggedness, consistency, case)."
            .into(),
        assumptions: vec![
            "time proportional to input is decided by deterministic work counters (coordinate operations over F, allocator bytes), not wall time".into(),
            "the linear constants were fixed at >= 16x the largest ratio observed on the unchanged tree; they target super-linear blow-ups (2^rounds), not constant factors".into(),
        ],
        exhaustive: false,
        subs: vec![
            hostile_sub::<F>((20_000, 300_000)),
            hostile_sub::<R>((3000, 40_000)),
            sub(
                "R/raw-bytes",
                no_fixed,
                (200_000, 3_000_000),
                |_: &RunCtx, _: Option<&()>| prop::collection::vec(any::<u8>(), 0..600).prop_map(|bytes| RawSpec { bytes }),
                raw_oracle::<R>,
            ),
            // long all-honest batches with mixed aggregation sizes: a panic on a batch shape beyond the chunk size is seen here
            crate::props::c01::long_sub::<F>((120, 2000)),
            sub("F/long-batch-work-bound", no_fixed, (200, 3000), |_: &RunCtx, _: Option<&()>| crate::props::c01::long_strategy(), long_work_oracle),
            crate::props::c01::long_sub::<R>((16, 200)),
            many_sub::<F>((96, 1000)),
            many_sub::<R>((12, 100)),
            crate::fuzzdec::corpus_sub("decode"),
            crate::fuzzdec::corpus_sub("verify"),
        ],
    }
}
