//! Engine F: a free-module "group". Points are sparse vectors over Z_l indexed by 128-bit basis ids.
//! The crate under test is generic over its point type; instantiating it with `FP` runs exactly the same
//! prover / verifier / transcript / generator code, but every group element is a readable coefficient vector.
use std::{
    borrow::Borrow,
    cell::{Cell, RefCell},
    collections::{BTreeMap, HashMap},
    ops::{Add, AddAssign, Mul},
};

use blake2::{Blake2b512, Digest};
use curve25519_dalek::{
    scalar::Scalar,
    traits::{Identity, IsIdentity, MultiscalarMul, VartimeMultiscalarMul, VartimePrecomputedMultiscalarMul},
};
use subtle::{Choice, ConstantTimeEq};
use tari_bulletproofs_plus::{
    protocols::curve_point_protocol::CurvePointProtocol,
    traits::{Compressable, Decompressable, FixedBytesRepr, FromUniformBytes, Precomputable},
};

/// Basis id of the value generator `h` used by engine F.
pub const H_ID: u128 = 1;
/// Basis id of blinding generator `g_k` used by engine F.
pub const fn g_id(k: usize) -> u128 {
    100 + k as u128
}

#[derive(Clone, Debug, Default)]
pub struct FP(pub BTreeMap<u128, Scalar>);

/// Equality of group elements; while the log of `msm_log_start` is armed the operands of the latest comparison are kept: the
/// verifier's verdict is decided by a comparison (with the identity, or of two sides), whatever it computed before.
impl PartialEq for FP {
    fn eq(&self, o: &Self) -> bool {
        let r = self.0 == o.0;
        CMP_LAST.with(|c| {
            if let Some(slot) = c.borrow_mut().as_mut() {
                *slot = Some((self.clone(), o.clone()));
            }
        });
        r
    }
}

impl FP {
    pub fn basis(id: u128) -> Self {
        let mut m = BTreeMap::new();
        m.insert(id, Scalar::ONE);
        FP(m)
    }

    pub fn coef(&self, id: u128) -> Scalar {
        self.0.get(&id).copied().unwrap_or(Scalar::ZERO)
    }

    pub fn add_scaled(&mut self, s: &Scalar, p: &FP) {
        if *s == Scalar::ZERO {
            return;
        }
        OPS.with(|o| o.set(o.get() + p.0.len() as u64));
        for (k, v) in &p.0 {
            let e = self.0.entry(*k).or_insert(Scalar::ZERO);
            *e += s * v;
            if *e == Scalar::ZERO {
                self.0.remove(k);
            }
        }
    }

    pub fn is_zero(&self) -> bool {
        self.0.is_empty()
    }

    /// `Some(id)` when the element is exactly one basis vector
    pub fn basis_id(&self) -> Option<u128> {
        if self.0.len() == 1 {
            let (k, v) = self.0.iter().next().unwrap();
            if *v == Scalar::ONE {
                return Some(*k);
            }
        }
        None
    }

    pub fn scaled(&self, s: &Scalar) -> FP {
        let mut r = FP::default();
        r.add_scaled(s, self);
        r
    }
}

impl Identity for FP {
    fn identity() -> Self {
        FP::default()
    }
}
impl Add for FP {
    type Output = FP;

    fn add(mut self, o: FP) -> FP {
        self.add_scaled(&Scalar::ONE, &o);
        self
    }
}
impl<'a> Add for &'a FP {
    type Output = FP;

    fn add(self, o: &'a FP) -> FP {
        let mut r = self.clone();
        r.add_scaled(&Scalar::ONE, o);
        r
    }
}
impl AddAssign for FP {
    fn add_assign(&mut self, o: FP) {
        self.add_scaled(&Scalar::ONE, &o);
    }
}
impl<'a> Mul<Scalar> for &'a FP {
    type Output = FP;

    fn mul(self, s: Scalar) -> FP {
        self.scaled(&s)
    }
}
impl FromUniformBytes for FP {
    fn from_uniform_bytes(b: &[u8; 64]) -> Self {
        let mut id = [0u8; 16];
        id.copy_from_slice(&b[..16]);
        FP::basis(u128::from_le_bytes(id))
    }
}

thread_local! {
    /// every result of a precomputed ("mixed") multiscalar multiplication on this thread, while logging is on
    /// (precomputed?, result) of every multiscalar multiplication while the log is armed
    static MSM_LOG: RefCell<Option<Vec<(bool, FP)>>> = const { RefCell::new(None) };
    /// armed: Some(..); operands of the latest comparison made AFTER the latest multiscalar multiplication
    static CMP_LAST: RefCell<Option<Option<(FP, FP)>>> = const { RefCell::new(None) };
    /// coordinate-operation counter (deterministic work proxy)
    static OPS: Cell<u64> = const { Cell::new(0) };
    /// content-addressed table of compressed points, owned by the running case
    static REG: RefCell<HashMap<[u8; 32], FP>> = RefCell::new(HashMap::new());
    /// keys this thread has put into the process-wide fallback registry (removed from there by `reset_registry`)
    static OWN_KEYS: RefCell<Vec<[u8; 32]>> = const { RefCell::new(Vec::new()) };
}

pub fn ops() -> u64 {
    OPS.with(|o| o.get())
}
pub fn reset_ops() {
    OPS.with(|o| o.set(0));
}
pub fn msm_log_start() {
    MSM_LOG.with(|l| *l.borrow_mut() = Some(Vec::new()));
    CMP_LAST.with(|c| *c.borrow_mut() = Some(None));
}
/// Stop logging and return the value of every FINAL CHECK made while the log was armed, in order: a verifier either asks whether
/// one precomputed (mixed) multiscalar multiplication is the identity - then that result is the value - or compares a precomputed
/// one with a plain one computed next to it - then the value is their difference. Either way the check passes iff the value is
/// zero, and the value is the verifier's relation up to a nonzero factor.
pub fn msm_log_stop() -> Vec<FP> {
    let raw = MSM_LOG.with(|l| l.borrow_mut().take().unwrap_or_default());
    // the comparison that judged the latest multiscalar result, if the verifier made one: its two sides differ by the value of
    // the final check (first the most direct reading; the pairing rule below is the fallback for a verifier that does not
    // compare group elements with `==`)
    let cmp = CMP_LAST.with(|c| c.borrow_mut().take().flatten());
    if let (Some((a, b)), false) = (cmp, raw.is_empty()) {
        let mut d = a;
        d.add_scaled(&-Scalar::ONE, &b);
        return vec![d];
    }
    let mut out = vec![];
    let mut i = 0;
    while i < raw.len() {
        let (pre, v) = &raw[i];
        match raw.get(i + 1) {
            Some((pre2, v2)) if pre != pre2 => {
                let (x, y) = if *pre { (v, v2) } else { (v2, v) };
                let mut d = x.clone();
                d.add_scaled(&-Scalar::ONE, y);
                out.push(d);
                i += 2;
            },
            _ => {
                if *pre {
                    out.push(v.clone());
                }
                i += 1;
            },
        }
    }
    out
}
fn log_msm(pre: bool, r: &FP) {
    CMP_LAST.with(|c| {
        if let Some(slot) = c.borrow_mut().as_mut() {
            *slot = None;
        }
    });
    MSM_LOG.with(|l| {
        if let Some(v) = l.borrow_mut().as_mut() {
            v.push((pre, r.clone()))
        }
    });
}
/// Forget every compressed point registered by this thread (call at the start of each case).
/// Process-wide fallback of the compressed-point registry (sharded, reference counted): the registry proper is per thread, so
/// that concurrently running cases do not see each other; but a library that hands part of a verification to threads of its
/// own must still be able to decompress, on those threads, what the calling thread compressed.
fn global_shard(k: &[u8; 32]) -> &'static std::sync::Mutex<HashMap<[u8; 32], (FP, u32)>> {
    static SHARDS: std::sync::OnceLock<Vec<std::sync::Mutex<HashMap<[u8; 32], (FP, u32)>>>> = std::sync::OnceLock::new();
    let v = SHARDS.get_or_init(|| (0..64).map(|_| std::sync::Mutex::new(HashMap::new())).collect());
    &v[(k[0] % 64) as usize]
}
pub fn reset_registry() {
    REG.with(|r| r.borrow_mut().clear());
    OWN_KEYS.with(|o| {
        for k in o.borrow_mut().drain(..) {
            let mut g = global_shard(&k).lock().unwrap_or_else(|e| e.into_inner());
            let gone = match g.get_mut(&k) {
                Some(e) => {
                    e.1 = e.1.saturating_sub(1);
                    e.1 == 0
                },
                None => false,
            };
            if gone {
                g.remove(&k);
            }
        }
    });
}
pub fn registry_len() -> usize {
    REG.with(|r| r.borrow().len())
}

fn msm<I, J>(scalars: I, points: J) -> Option<FP>
where
    I: IntoIterator,
    I::Item: Borrow<Scalar>,
    J: IntoIterator<Item = Option<FP>>,
{
    let s: Vec<Scalar> = scalars.into_iter().map(|x| *x.borrow()).collect();
    let p: Vec<FP> = points.into_iter().collect::<Option<Vec<_>>>()?;
    // same contract as dalek's backends
    assert_eq!(s.len(), p.len(), "FP msm: scalar / point count mismatch");
    let mut r = FP::default();
    for (s, p) in s.iter().zip(p.iter()) {
        r.add_scaled(s, p);
    }
    Some(r)
}
impl VartimeMultiscalarMul for FP {
    type Point = FP;

    fn optional_multiscalar_mul<I, J>(scalars: I, points: J) -> Option<FP>
    where
        I: IntoIterator,
        I::Item: Borrow<Scalar>,
        J: IntoIterator<Item = Option<FP>>,
    {
        let r = msm(scalars, points)?;
        log_msm(false, &r);
        Some(r)
    }
}
impl MultiscalarMul for FP {
    type Point = FP;

    fn multiscalar_mul<I, J>(scalars: I, points: J) -> FP
    where
        I: IntoIterator,
        I::Item: Borrow<Scalar>,
        J: IntoIterator,
        J::Item: Borrow<FP>,
    {
        let r = msm(scalars, points.into_iter().map(|p| Some(p.borrow().clone()))).unwrap();
        log_msm(false, &r);
        r
    }
}

/// Precomputation table: just the static points; asserts the same length contract as dalek's Straus backend.
pub struct FPre(pub Vec<FP>);
impl VartimePrecomputedMultiscalarMul for FPre {
    type Point = FP;

    fn new<I>(static_points: I) -> Self
    where
        I: IntoIterator,
        I::Item: Borrow<FP>,
    {
        FPre(static_points.into_iter().map(|p| p.borrow().clone()).collect())
    }

    fn optional_mixed_multiscalar_mul<I, J, K>(&self, ss: I, ds: J, dp: K) -> Option<FP>
    where
        I: IntoIterator,
        I::Item: Borrow<Scalar>,
        J: IntoIterator,
        J::Item: Borrow<Scalar>,
        K: IntoIterator<Item = Option<FP>>,
    {
        let ss: Vec<Scalar> = ss.into_iter().map(|x| *x.borrow()).collect();
        assert_eq!(ss.len(), self.0.len(), "FP precomputation: static scalar count != table size");
        let mut r = msm(ds, dp)?;
        for (s, p) in ss.iter().zip(self.0.iter()) {
            r.add_scaled(s, p);
        }
        log_msm(true, &r);
        Some(r)
    }
}
impl Precomputable for FP {
    type Precomputation = FPre;
}

#[derive(Clone, Copy, PartialEq, Eq, Debug, Hash)]
pub struct CFP(pub [u8; 32]);

impl Compressable for FP {
    type Compressed = CFP;

    fn compress(&self) -> CFP {
        if self.0.is_empty() {
            return CFP([0u8; 32]);
        }
        let mut h = Blake2b512::new();
        h.update(b"FP-compress");
        for (k, v) in &self.0 {
            h.update(k.to_le_bytes());
            h.update(v.as_bytes());
        }
        let d = h.finalize();
        let mut b = [0u8; 32];
        b.copy_from_slice(&d[..32]);
        let fresh = REG.with(|r| {
            let mut r = r.borrow_mut();
            if r.contains_key(&b) {
                false
            } else {
                r.insert(b, self.clone());
                true
            }
        });
        if fresh {
            let mut g = global_shard(&b).lock().unwrap_or_else(|e| e.into_inner());
            g.entry(b).or_insert_with(|| (self.clone(), 0)).1 += 1;
            drop(g);
            OWN_KEYS.with(|o| o.borrow_mut().push(b));
        }
        CFP(b)
    }
}
impl Decompressable for CFP {
    type Decompressed = FP;

    fn decompress(&self) -> Option<FP> {
        if self.0 == [0u8; 32] {
            return Some(FP::default());
        }
        if let Some(p) = REG.with(|r| r.borrow().get(&self.0).cloned()) {
            return Some(p);
        }
        // (only reached on a thread that did not compress the point itself)
        global_shard(&self.0).lock().unwrap_or_else(|e| e.into_inner()).get(&self.0).map(|e| e.0.clone())
    }
}
impl FixedBytesRepr for CFP {
    fn as_fixed_bytes(&self) -> &[u8; 32] {
        &self.0
    }

    fn from_fixed_bytes(b: [u8; 32]) -> Self {
        CFP(b)
    }
}
impl Identity for CFP {
    fn identity() -> Self {
        CFP([0u8; 32])
    }
}
impl ConstantTimeEq for CFP {
    fn ct_eq(&self, o: &Self) -> Choice {
        self.0.ct_eq(&o.0)
    }
}
impl CurvePointProtocol for FP {}

#[allow(dead_code)]
fn _assert_is_identity() {
    fn f<T: IsIdentity>() {}
    f::<CFP>();
}
