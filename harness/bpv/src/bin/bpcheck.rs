//! bpcheck <ID> [--tier quick|thorough] [--replay FILE] [--sub NAME]
use std::{path::PathBuf, time::Instant};

use bpv::runner::{load_known, replay_property, run_property, RunCtx, Tier};

fn main() {
    let args: Vec<String> = std::env::args().skip(1).collect();
    if args.is_empty() {
        eprintln!("usage: bpcheck <ID> [--tier quick|thorough] [--replay FILE] [--sub NAME]");
        std::process::exit(2);
    }
    let id = args[0].clone();
    if id == "child-c18" {
        bpv::props::c18::child_main(&args[1]);
        return;
    }
    if id == "gen-corpus" {
        // bpcheck gen-corpus <dir>: write the seed corpora of the two fuzz targets
        let (dec, ver) = bpv::fuzzdec::seed_corpus();
        for (name, set) in [("decode", dec), ("verify", ver)] {
            let d = PathBuf::from(&args[1]).join(name);
            std::fs::create_dir_all(&d).expect("mkdir");
            for (i, b) in set.iter().enumerate() {
                std::fs::write(d.join(format!("seed-{:03}", i)), b).expect("write");
            }
        }
        return;
    }
    if id == "fuzz-replay" {
        // bpcheck fuzz-replay <decode|verify> <file> [panic-only]: run the target's oracle once on a saved input (no libFuzzer)
        std::panic::set_hook(Box::new(|_| {}));
        let data = std::fs::read(&args[2]).expect("read input");
        let panic_only = args.get(3).map(|s| s == "panic-only").unwrap_or(false);
        let r = std::panic::catch_unwind(|| match (args[1].as_str(), panic_only) {
            ("decode", false) => bpv::fuzzdec::decode_target(&data),
            ("decode", true) => {
                let _ = tari_bulletproofs_plus::ristretto::RistrettoRangeProof::from_bytes(&data);
                Ok(())
            },
            (_, po) => bpv::fuzzdec::verify_target_mode(&data, po),
        });
        match r {
            Ok(Ok(())) => {
                println!("fuzz-replay: input passes");
                std::process::exit(0)
            },
            Ok(Err(m)) => {
                println!("fuzz-replay: ORACLE FAILURE: {}", m);
                std::process::exit(1)
            },
            Err(_) => {
                println!("fuzz-replay: PANIC");
                std::process::exit(1)
            },
        }
    }
    if id == "gen-vectors" {
        // bpcheck gen-vectors <out.json> <description of the tree it was recorded from>
        let f = bpv::props::c19::gen_vectors(args.get(2).map(|s| s.as_str()).unwrap_or("unknown"));
        std::fs::write(&args[1], serde_json::to_string(&f).unwrap()).expect("write vectors");
        eprintln!("wrote {} vectors", f.vectors.len());
        return;
    }
    let mut tier = match std::env::var("VERIF_TIER").as_deref() {
        Ok("thorough") => Tier::Thorough,
        _ => Tier::Quick,
    };
    let mut replay: Option<PathBuf> = None;
    let mut only_sub: Option<String> = None;
    let mut i = 1;
    while i < args.len() {
        match args[i].as_str() {
            "--tier" => {
                i += 1;
                tier = if args.get(i).map(|s| s.as_str()) == Some("thorough") { Tier::Thorough } else { Tier::Quick };
            },
            "--replay" => {
                i += 1;
                replay = args.get(i).map(PathBuf::from);
            },
            "--sub" => {
                i += 1;
                only_sub = args.get(i).cloned();
            },
            other => {
                eprintln!("unknown argument {}", other);
                std::process::exit(2);
            },
        }
        i += 1;
    }
    // Parent / child split: the real work runs in a child process so that an abort, a stack overflow or an OOM kill in
    // the code under test is observed, attributed to the case that was running, and reported as a violation.
    if std::env::var("BPCHECK_CHILD").is_err() {
        std::process::exit(parent(&id, &args, replay.as_deref()));
    }
    let seed: u64 = std::env::var("VERIF_SEED").ok().and_then(|s| s.trim().parse::<i128>().ok()).map(|v| v as u64).unwrap_or(0);
    let root = PathBuf::from(std::env::var("VERIF_ROOT").unwrap_or_else(|_| "/verif".into()));
    // quiet panic hook: panics are caught and reported by the oracles
    std::panic::set_hook(Box::new(|_| {}));
    // watchdog: a stuck run is inconclusive, never a violation
    let limit = std::env::var("VERIF_WATCHDOG_S").ok().and_then(|s| s.parse::<u64>().ok()).unwrap_or(match tier {
        Tier::Quick => 1500,
        Tier::Thorough => 6 * 3600,
    });
    std::thread::spawn(move || {
        std::thread::sleep(std::time::Duration::from_secs(limit));
        eprintln!("INCONCLUSIVE: watchdog after {} s", limit);
        std::process::exit(2);
    });
    let def = match bpv::props::all().into_iter().find(|(n, _)| *n == id) {
        Some((_, f)) => f(),
        None => {
            eprintln!("unknown property {}", id);
            std::process::exit(2);
        },
    };
    let ctx = RunCtx {
        property: id.clone(),
        tier,
        seed,
        known_open: load_known(&root),
        root,
        started: Instant::now(),
    };
    let code = match replay {
        Some(f) => replay_property(&ctx, &def, &f),
        None => run_property(&ctx, &def, only_sub.as_deref()),
    };
    std::process::exit(code);
}

fn run_child(args: &[String], crumbs: Option<&std::path::Path>) -> std::process::ExitStatus {
    let exe = std::env::current_exe().expect("current_exe");
    // address-space cap so that a runaway allocation fails fast instead of thrashing the machine
    let limit_kb: u64 = std::env::var("VERIF_AS_LIMIT_KB").ok().and_then(|s| s.parse().ok()).unwrap_or(40 * 1024 * 1024);
    let mut cmd = std::process::Command::new("/bin/sh");
    let quoted: Vec<String> = std::iter::once(exe.display().to_string())
        .chain(args.iter().cloned())
        .map(|a| format!("'{}'", a.replace('\'', "'\\''")))
        .collect();
    cmd.arg("-c").arg(format!("ulimit -v {} 2>/dev/null; exec {}", limit_kb, quoted.join(" ")));
    cmd.env("BPCHECK_CHILD", "1");
    if let Some(c) = crumbs {
        cmd.env("BPCHECK_CRUMBS", c);
    }
    cmd.status().expect("spawn child")
}

fn parent(id: &str, args: &[String], replay: Option<&std::path::Path>) -> i32 {
    use std::os::unix::process::ExitStatusExt;
    let root = PathBuf::from(std::env::var("VERIF_ROOT").unwrap_or_else(|_| "/verif".into()));
    let crumbs = root.join("harness/target/crumbs").join(format!("{}-{}", id, std::process::id()));
    let _ = std::fs::remove_dir_all(&crumbs);
    let _ = std::fs::create_dir_all(&crumbs);
    let st = run_child(args, if replay.is_none() { Some(&crumbs) } else { None });
    let code = match (st.code(), st.signal()) {
        (Some(c), _) if c == 0 || c == 1 || c == 2 => c,
        (c, sig) => {
            // abnormal death
            eprintln!("[{}] child process died abnormally (exit code {:?}, signal {:?})", id, c, sig);
            if let Some(f) = replay {
                println!("VIOLATION property={} replay={}", id, f.display());
                eprintln!("  reason=process died (abort / kill) while replaying this case");
                1
            } else {
                // which of the cases that were running kills the process? replay each candidate in its own child
                let mut found = None;
                let mut cands: Vec<PathBuf> = std::fs::read_dir(&crumbs).map(|d| d.filter_map(|e| e.ok().map(|e| e.path())).collect()).unwrap_or_default();
                cands.sort();
                let dir = root.join("replays").join(id);
                let _ = std::fs::create_dir_all(&dir);
                for (n, cnd) in cands.iter().enumerate() {
                    let dst = dir.join(format!("abort-{}-{}.json", std::process::id(), n));
                    let _ = std::fs::copy(cnd, &dst);
                    let st2 = run_child(&[id.to_string(), "--replay".into(), dst.display().to_string()], None);
                    match st2.code() {
                        Some(1) => {
                            // the child reported the violation itself (with the replay path)
                            found = Some(dst);
                            break;
                        },
                        Some(0) | Some(2) => {
                            let _ = std::fs::remove_file(&dst);
                        },
                        _ => {
                            println!("VIOLATION property={} replay={}", id, dst.display());
                            eprintln!("  reason=process died (abort / kill / stack overflow) while running this case");
                            found = Some(dst);
                            break;
                        },
                    }
                }
                match found {
                    Some(_) => 1,
                    None => {
                        eprintln!("INCONCLUSIVE: child died abnormally and no single running case reproduces it");
                        2
                    },
                }
            }
        },
    };
    let _ = std::fs::remove_dir_all(&crumbs);
    code
}
