//! bpcheck <ID> [--tier quick|thorough] [--replay FILE] [--sub NAME]
use std::{path::PathBuf, time::Instant};

use bpv::runner::{load_known, replay_property, run_property, RunCtx, Tier};

fn main() {
    let args: Vec<String> = std::env::args().skip(1).collect();
    if args.is_empty() {
        eprintln!("usage: bpcheck <ID> [--tier quick|thorough] [--replay FILE] [--sub NAME]");
        std::process::exit(2);
    }
    let id = args[0].clone();
    let mut tier = match std::env::var("VERIF_TIER").as_deref() {
        Ok("thorough") => Tier::Thorough,
        _ => Tier::Quick,
    };
    let mut replay: Option<PathBuf> = None;
    let mut only_sub: Option<String> = None;
    let mut i = 1;
    while i < args.len() {
        match args[i].as_str() {
            "--tier" => {
                i += 1;
                tier = if args.get(i).map(|s| s.as_str()) == Some("thorough") { Tier::Thorough } else { Tier::Quick };
            },
            "--replay" => {
                i += 1;
                replay = args.get(i).map(PathBuf::from);
            },
            "--sub" => {
                i += 1;
                only_sub = args.get(i).cloned();
            },
            other => {
                eprintln!("unknown argument {}", other);
                std::process::exit(2);
            },
        }
        i += 1;
    }
    let seed: u64 = std::env::var("VERIF_SEED").ok().and_then(|s| s.trim().parse::<i128>().ok()).map(|v| v as u64).unwrap_or(0);
    let root = PathBuf::from(std::env::var("VERIF_ROOT").unwrap_or_else(|_| "/verif".into()));
    // quiet panic hook: panics are caught and reported by the oracles
    std::panic::set_hook(Box::new(|_| {}));
    // watchdog: a stuck run is inconclusive, never a violation
    let limit = std::env::var("VERIF_WATCHDOG_S").ok().and_then(|s| s.parse::<u64>().ok()).unwrap_or(match tier {
        Tier::Quick => 1500,
        Tier::Thorough => 6 * 3600,
    });
    std::thread::spawn(move || {
        std::thread::sleep(std::time::Duration::from_secs(limit));
        eprintln!("INCONCLUSIVE: watchdog after {} s", limit);
        std::process::exit(2);
    });
    let def = match bpv::props::all().into_iter().find(|(n, _)| *n == id) {
        Some((_, f)) => f(),
        None => {
            eprintln!("unknown property {}", id);
            std::process::exit(2);
        },
    };
    let ctx = RunCtx {
        property: id.clone(),
        tier,
        seed,
        known_open: load_known(&root),
        root,
        started: Instant::now(),
    };
    let code = match replay {
        Some(f) => replay_property(&ctx, &def, &f),
        None => run_property(&ctx, &def, only_sub.as_deref()),
    };
    std::process::exit(code);
}
