//! Sharded, seeded proptest driver; statistics; evidence and replay files; known findings.
use std::{
    collections::{BTreeMap, BTreeSet, HashSet},
    fmt::Debug,
    hash::{Hash, Hasher},
    panic::{catch_unwind, AssertUnwindSafe},
    path::PathBuf,
    sync::{
        atomic::{AtomicBool, AtomicUsize, Ordering},
        Arc, Mutex,
    },
    time::Instant,
};

use proptest::{
    strategy::Strategy,
    test_runner::{Config, RngAlgorithm, TestCaseError, TestError, TestRng, TestRunner},
};
use serde::{de::DeserializeOwned, Serialize};
use serde_json::{json, Value};

pub const SHARDS: usize = 16;

#[derive(Clone, Copy, Debug, PartialEq, Eq)]
pub enum Tier {
    Quick,
    Thorough,
}

pub struct RunCtx {
    pub property: String,
    pub tier: Tier,
    pub seed: u64,
    pub root: PathBuf,
    pub known_open: Vec<(String, String, String)>, // (property, signature, text)
    pub started: Instant,
}

impl RunCtx {
    pub fn n(&self, quick: usize, thorough: usize) -> usize {
        let n = match self.tier {
            Tier::Quick => quick,
            Tier::Thorough => thorough,
        };
        // VERIF_CASE_SCALE (e.g. 0.2) shrinks the number of random cases; used for the second, unoptimised pass of C16
        match std::env::var("VERIF_CASE_SCALE").ok().and_then(|s| s.parse::<f64>().ok()) {
            // (a sub-check without random cases keeps none: its strategy only knows its fixed items)
            Some(f) if f > 0.0 && n > 0 => ((n as f64 * f).ceil() as usize).max(1),
            _ => n,
        }
    }

    pub fn is_known(&self, sig: &str) -> Option<&str> {
        self.known_open
            .iter()
            .find(|(p, s, _)| *p == self.property && s == sig)
            .map(|(_, _, t)| t.as_str())
    }
}

pub fn load_known(root: &std::path::Path) -> Vec<(String, String, String)> {
    let mut v = vec![];
    if let Ok(s) = std::fs::read_to_string(root.join("KNOWN_FINDINGS.txt")) {
        for line in s.lines() {
            let line = line.trim();
            if let Some(rest) = line.strip_prefix("open:") {
                let mut prop = None;
                let mut sig = None;
                let mut text = vec![];
                for tok in rest.split_whitespace() {
                    if let Some(p) = tok.strip_prefix("property=") {
                        prop = Some(p.to_string());
                    } else if let Some(s) = tok.strip_prefix("signature=") {
                        sig = Some(s.to_string());
                    } else {
                        text.push(tok);
                    }
                }
                if let (Some(p), Some(s)) = (prop, sig) {
                    v.push((p, s, text.join(" ")));
                }
            }
        }
    }
    v
}

/// What an oracle reports about one passing case.
#[derive(Default)]
pub struct CaseLog {
    pub labels: Vec<String>,
    pub nontrivial: Vec<u64>,
    pub known: Vec<String>,
    pub excluded: u64,
    pub sample: Option<Value>,
    pub extra_evals: u64,
}
impl CaseLog {
    pub fn label(&mut self, s: impl Into<String>) {
        self.labels.push(s.into());
    }

    pub fn labels(&mut self, v: impl IntoIterator<Item = String>) {
        self.labels.extend(v);
    }

    /// declare the case (or a sub-case of it) non-trivial; `key` identifies it for distinct counting
    pub fn nontrivial<H: Hash>(&mut self, key: &H) {
        self.nontrivial.push(hash_of(key));
    }

    pub fn sample(&mut self, v: Value) {
        if self.sample.is_none() {
            self.sample = Some(v);
        }
    }
}

pub fn hash_of<H: Hash>(k: &H) -> u64 {
    // FNV-style stable hasher (std's DefaultHasher is stable within a process, which is all that is needed, but be explicit)
    struct Fnv(u64);
    impl Hasher for Fnv {
        fn finish(&self) -> u64 {
            self.0
        }

        fn write(&mut self, bytes: &[u8]) {
            for b in bytes {
                self.0 ^= *b as u64;
                self.0 = self.0.wrapping_mul(0x100000001b3);
            }
        }
    }
    let mut h = Fnv(0xcbf29ce484222325);
    k.hash(&mut h);
    h.finish()
}

#[derive(Default)]
pub struct Stats {
    pub evaluations: u64,
    pub nontrivial: HashSet<u64>,
    pub hist: BTreeMap<String, u64>,
    pub samples: Vec<Value>,
    pub sample_classes: BTreeSet<String>,
    pub known: BTreeMap<String, u64>,
    pub excluded: u64,
    /// cases whose scenario could not be set up (see `SKIP`)
    pub skipped: u64,
}
impl Stats {
    fn absorb(&mut self, log: CaseLog) {
        self.evaluations += 1 + log.extra_evals;
        for n in log.nontrivial {
            self.nontrivial.insert(n);
        }
        let first_label = log.labels.first().cloned().unwrap_or_default();
        for l in log.labels {
            *self.hist.entry(l).or_insert(0) += 1;
        }
        for k in log.known {
            *self.known.entry(k).or_insert(0) += 1;
        }
        self.excluded += log.excluded;
        if let Some(s) = log.sample {
            // keep the first sample of each leading class, at most 6 per shard
            if self.samples.len() < 6 && self.sample_classes.insert(first_label) {
                self.samples.push(s);
            }
        }
    }

    pub fn merge(&mut self, o: Stats) {
        self.evaluations += o.evaluations;
        self.nontrivial.extend(o.nontrivial);
        for (k, v) in o.hist {
            *self.hist.entry(k).or_insert(0) += v;
        }
        for (k, v) in o.known {
            *self.known.entry(k).or_insert(0) += v;
        }
        self.excluded += o.excluded;
        self.skipped += o.skipped;
        for s in o.samples {
            if self.samples.len() < 12 {
                self.samples.push(s);
            }
        }
    }
}

#[derive(Clone, Debug)]
pub struct Violation {
    pub sub: String,
    pub reason: String,
    pub case: Value,
}

pub struct PartResult {
    pub sub: String,
    pub stats: Stats,
    pub violations: Vec<Violation>,
    pub inconclusive: Vec<String>,
}

fn shard_rng(seed: u64, property: &str, sub: &str, shard: usize, salt: u64) -> TestRng {
    let key = hash_of(&(seed, property, sub, shard as u64, salt));
    let mut s = [0u8; 32];
    for i in 0..4 {
        s[i * 8..i * 8 + 8].copy_from_slice(&crate::gen::mix(key, i as u64).to_le_bytes());
    }
    TestRng::from_seed(RngAlgorithm::ChaCha, &s)
}

fn pt_config(cases: u32) -> Config {
    Config {
        cases,
        failure_persistence: None,
        max_shrink_iters: 400,
        max_shrink_time: 15_000,
        max_local_rejects: 1_000_000,
        max_global_rejects: 1_000_000,
        verbose: 0,
        ..Config::default()
    }
}

pub fn panic_msg(e: Box<dyn std::any::Any + Send>) -> String {
    if let Some(s) = e.downcast_ref::<&str>() {
        s.to_string()
    } else if let Some(s) = e.downcast_ref::<String>() {
        s.clone()
    } else {
        "non-string panic".into()
    }
}

/// Run `f`, turning a panic into `Err("PANIC: ..")`.
pub fn guarded<T>(f: impl FnOnce() -> T) -> Result<T, String> {
    catch_unwind(AssertUnwindSafe(f)).map_err(|e| format!("PANIC: {}", panic_msg(e)))
}

/// An oracle error starting with this prefix means "the harness's assumption about the code's shape broke",
/// which is reported as inconclusive (exit 2), never as a violation.
pub const INCONCLUSIVE: &str = "INCONCLUSIVE:";
/// Prefix of an oracle result that means: the SCENARIO of this case could not be set up because of something that is another
/// property's subject (the prover refused or panicked on a valid witness, an honest proof was rejected: completeness, C01).
/// The case is counted as skipped, not as a violation of the property being checked; if most cases of a run end like this the
/// run is inconclusive (exit 2), never "held".
pub const SKIP: &str = "SKIP:";

/// `map_err` adaptor for a set-up call (constructor, commitment, ..) that has to succeed for the scenario to exist
pub fn skip_err<E: Debug>(e: E) -> String {
    format!("{} a set-up call failed (constructors are C17's subject, proving and accepting honest proofs C01's): {:?}", SKIP, e)
}

/// Unwrap a set-up step (`guarded(|| ..)` around a library call that has to succeed for the scenario to exist).
pub fn setup<T, E: Debug>(r: Result<Result<T, E>, String>, what: &str) -> Result<T, String> {
    match r {
        Ok(Ok(t)) => Ok(t),
        Ok(Err(e)) => Err(format!("{} {}: {:?}", SKIP, what, e)),
        Err(p) => Err(format!("{} {}: {}", SKIP, what, p)),
    }
}

/// One unit of sharded work: either `cases` random cases from `strat(None)`, or one case per fixed item from
/// `strat(Some(item))`.
pub fn explore<C, T, SF, S, O>(ctx: &RunCtx, sub: &str, fixed: &[T], random_cases: usize, strat: SF, oracle: O) -> PartResult
where
    C: Debug + Clone + Serialize,
    T: Sync + Clone,
    SF: Fn(Option<&T>) -> S + Sync,
    S: Strategy<Value = C>,
    O: Fn(&C, &mut CaseLog) -> Result<(), String> + Sync,
{
    let nthreads = std::thread::available_parallelism().map(|n| n.get()).unwrap_or(4).min(SHARDS);
    let next = AtomicUsize::new(0);
    let crumbs: Option<PathBuf> = std::env::var("BPCHECK_CRUMBS").ok().map(PathBuf::from);
    let merged = Mutex::new((Stats::default(), Vec::<Violation>::new(), Vec::<String>::new()));
    let stop = AtomicBool::new(false);
    std::thread::scope(|sc| {
        for _ in 0..nthreads {
            std::thread::Builder::new()
                .stack_size(32 << 20)
                .spawn_scoped(sc, || loop {
                    let shard = next.fetch_add(1, Ordering::SeqCst);
                    if shard >= SHARDS {
                        break;
                    }
                    let mut stats = Stats::default();
                    let mut viol = vec![];
                    let mut inconc = vec![];
                    let failed = std::cell::Cell::new(false);
                    let stats_cell = std::cell::RefCell::new(&mut stats);
                    let mut run_one = |runner: &mut TestRunner, s: &S| {
                        if stop.load(Ordering::Relaxed) {
                            return;
                        }
                        let r = runner.run(s, |case| {
                            if let Some(dir) = crumbs.as_ref() {
                                let body = json!({"property": ctx.property, "sub": sub, "reason": "process died (abort / kill) while this case was running", "case": serde_json::to_value(&case).unwrap_or(Value::Null)});
                                let _ = std::fs::write(dir.join(format!("shard-{}.json", shard)), body.to_string());
                            }
                            let mut log = CaseLog::default();
                            let res = match catch_unwind(AssertUnwindSafe(|| oracle(&case, &mut log))) {
                                Ok(r) => r,
                                Err(e) => Err(format!("PANIC in oracle: {}", panic_msg(e))),
                            };
                            match res {
                                Ok(()) => {
                                    if !failed.get() {
                                        stats_cell.borrow_mut().absorb(log);
                                    }
                                    Ok(())
                                },
                                Err(m) if m.starts_with(SKIP) => {
                                    if !failed.get() {
                                        let mut st = stats_cell.borrow_mut();
                                        st.skipped += 1;
                                        let what: String = m[SKIP.len()..].split(':').next().unwrap_or("").trim().chars().take(80).collect();
                                        *st.hist.entry(format!("skipped(set-up failed, another property's subject):{}", what)).or_insert(0) += 1;
                                    }
                                    Ok(())
                                },
                                Err(m) => {
                                    failed.set(true);
                                    Err(TestCaseError::fail(m))
                                },
                            }
                        });
                        match r {
                            Ok(()) => {},
                            Err(TestError::Fail(reason, case)) => {
                                let reason = reason.message().to_string();
                                if reason.starts_with(INCONCLUSIVE) {
                                    inconc.push(reason);
                                } else {
                                    viol.push(Violation {
                                        sub: sub.to_string(),
                                        reason,
                                        case: serde_json::to_value(&case).unwrap_or(Value::Null),
                                    });
                                }
                                // first failure ends this sub-check: later cases would only rediscover it
                                stop.store(true, Ordering::Relaxed);
                            },
                            Err(TestError::Abort(r)) => inconc.push(format!("proptest abort: {}", r.message())),
                        }
                    };
                    // fixed items of this shard
                    for (i, item) in fixed.iter().enumerate() {
                        if i % SHARDS != shard {
                            continue;
                        }
                        let mut runner =
                            TestRunner::new_with_rng(pt_config(1), shard_rng(ctx.seed, &ctx.property, sub, shard, 1 + i as u64));
                        let s = strat(Some(item));
                        run_one(&mut runner, &s);
                    }
                    // random cases of this shard
                    let my = random_cases / SHARDS + usize::from(shard < random_cases % SHARDS);
                    if my > 0 {
                        let mut runner =
                            TestRunner::new_with_rng(pt_config(my as u32), shard_rng(ctx.seed, &ctx.property, sub, shard, 0));
                        let s = strat(None);
                        run_one(&mut runner, &s);
                    }
                    drop(run_one);
                    drop(stats_cell);
                    if let Some(dir) = crumbs.as_ref() {
                        let _ = std::fs::remove_file(dir.join(format!("shard-{}.json", shard)));
                    }
                    let mut g = merged.lock().unwrap();
                    g.0.merge(stats);
                    g.1.extend(viol);
                    g.2.extend(inconc);
                })
                .expect("spawn");
        }
    });
    let (stats, violations, inconclusive) = merged.into_inner().unwrap();
    PartResult {
        sub: sub.to_string(),
        stats,
        violations,
        inconclusive,
    }
}

/// A named sub-check of a property: how to run it and how to replay one of its cases.
pub struct Sub {
    pub name: String,
    pub run: Box<dyn Fn(&RunCtx) -> PartResult + Send + Sync>,
    pub replay: Box<dyn Fn(&RunCtx, &Value) -> Result<(), String> + Send + Sync>,
}

/// Build a `Sub` from a strategy factory and an oracle (the common case).
pub fn sub<C, T, SF, S, O>(
    name: &str,
    fixed: impl Fn(&RunCtx) -> Vec<T> + Send + Sync + 'static,
    cases: (usize, usize),
    strat: SF,
    oracle: O,
) -> Sub
where
    C: Debug + Clone + Serialize + DeserializeOwned + 'static,
    T: Sync + Send + Clone + 'static,
    SF: Fn(&RunCtx, Option<&T>) -> S + Send + Sync + 'static,
    S: Strategy<Value = C> + 'static,
    O: Fn(&RunCtx, &C, &mut CaseLog) -> Result<(), String> + Send + Sync + 'static,
{
    let oracle = Arc::new(oracle);
    let o2 = oracle.clone();
    let name_s = name.to_string();
    let name_r = name.to_string();
    Sub {
        name: name.to_string(),
        run: Box::new(move |ctx| {
            let items = fixed(ctx);
            explore(
                ctx,
                &name_s,
                &items,
                ctx.n(cases.0, cases.1),
                |it| strat(ctx, it),
                |c, l| oracle(ctx, c, l),
            )
        }),
        replay: Box::new(move |ctx, v| {
            let c: C = serde_json::from_value(v.clone()).map_err(|e| format!("replay {}: cannot decode case: {}", name_r, e))?;
            let mut log = CaseLog::default();
            match catch_unwind(AssertUnwindSafe(|| o2(ctx, &c, &mut log))) {
                Ok(r) => r,
                Err(e) => Err(format!("PANIC in oracle: {}", panic_msg(e))),
            }
        }),
    }
}

pub fn no_fixed(_: &RunCtx) -> Vec<()> {
    vec![]
}

pub struct PropertyDef {
    pub id: &'static str,
    pub level: &'static str,
    pub rule: String,
    pub assumptions: Vec<String>,
    pub exhaustive: bool,
    pub subs: Vec<Sub>,
}

fn write_replay(ctx: &RunCtx, v: &Violation) -> PathBuf {
    let dir = ctx.root.join("replays").join(&ctx.property);
    let _ = std::fs::create_dir_all(&dir);
    let body = json!({"property": ctx.property, "sub": v.sub, "reason": v.reason, "case": v.case});
    let text = serde_json::to_string_pretty(&body).unwrap();
    let name = format!("{:016x}.json", hash_of(&text));
    let path = dir.join(name);
    let _ = std::fs::write(&path, text);
    path
}

/// Run a property: all sub-checks, evidence file, VIOLATION / KNOWN-FINDING lines. Returns the process exit code.
pub fn run_property(ctx: &RunCtx, def: &PropertyDef, only_sub: Option<&str>) -> i32 {
    let mut total = Stats::default();
    let mut violations: Vec<Violation> = vec![];
    let mut inconclusive: Vec<String> = vec![];
    let mut per_sub = vec![];
    for s in &def.subs {
        if let Some(o) = only_sub {
            if !s.name.contains(o) {
                continue;
            }
        }
        let t0 = Instant::now();
        let r = (s.run)(ctx);
        eprintln!(
            "[{}] {:<28} evaluations={:<8} nontrivial={:<7} violations={} known={} ({:.1}s)",
            ctx.property,
            s.name,
            r.stats.evaluations,
            r.stats.nontrivial.len(),
            r.violations.len(),
            r.stats.known.values().sum::<u64>(),
            t0.elapsed().as_secs_f64()
        );
        per_sub.push(json!({"sub": s.name, "evaluations": r.stats.evaluations, "distinct_nontrivial": r.stats.nontrivial.len(),
            "wall_s": t0.elapsed().as_secs_f64(), "violations": r.violations.len()}));
        // nontrivial hashes are namespaced per sub-check
        let mut st = r.stats;
        st.nontrivial = st.nontrivial.into_iter().map(|h| hash_of(&(h, &s.name))).collect();
        total.merge(st);
        violations.extend(r.violations);
        inconclusive.extend(r.inconclusive);
    }
    let wall = ctx.started.elapsed().as_secs_f64();
    // known findings
    for (sig, n) in &total.known {
        let text = ctx.is_known(sig).unwrap_or("");
        println!("KNOWN-FINDING: property={} signature={} hits={} {}", ctx.property, sig, n, text);
    }
    let mut replay_paths = vec![];
    for v in &violations {
        let p = write_replay(ctx, v);
        println!("VIOLATION property={} replay={}", ctx.property, p.display());
        eprintln!("  sub={} reason={}", v.sub, v.reason);
        replay_paths.push(p.display().to_string());
    }
    if total.skipped > 0 {
        eprintln!("[{}] {} case(s) skipped because their scenario could not be set up (see class_histogram in the evidence)", ctx.property, total.skipped);
    }
    if total.skipped > total.evaluations / 2 + 8 {
        inconclusive.push(format!(
            "{} {} of the cases could not be set up (another property's failure stands in the way): nothing can be said about {}",
            INCONCLUSIVE, total.skipped, ctx.property
        ));
    }
    for m in &inconclusive {
        eprintln!("INCONCLUSIVE property={} {}", ctx.property, m);
    }
    let hist: serde_json::Map<String, Value> = total.hist.iter().map(|(k, v)| (k.clone(), json!(v))).collect();
    let known: serde_json::Map<String, Value> = total.known.iter().map(|(k, v)| (k.clone(), json!(v))).collect();
    let mut samples = total.samples.clone();
    if samples.is_empty() {
        samples.push(json!({"note": "no sample recorded"}));
    }
    let ev = json!({
        "property_id": ctx.property,
        "tier": match ctx.tier { Tier::Quick => "quick", Tier::Thorough => "thorough" },
        "seed": ctx.seed,
        "level": def.level,
        "coverage": {
            "evaluations": total.evaluations + violations.len() as u64,
            "distinct_nontrivial": total.nontrivial.len(),
            "rule": def.rule,
            "samples": samples,
            "exhaustive": def.exhaustive,
            "class_histogram": hist,
            "per_sub_check": per_sub,
            "known_finding_hits": known,
            "excluded_by_known_findings": total.excluded,
            "skipped_set_up_failed": total.skipped,
            "inconclusive": inconclusive,
            "replays": replay_paths,
        },
        "assumptions": def.assumptions,
        "wall_s": wall,
        "violations": violations.len(),
    });
    // sensitivity experiments (tools/mutant.sh) redirect their evidence so that committed evidence always comes from the unchanged tree
    let evdir = std::env::var("VERIF_EVIDENCE_DIR").map(PathBuf::from).unwrap_or_else(|_| ctx.root.join("evidence"));
    let _ = std::fs::create_dir_all(&evdir);
    if only_sub.is_none() {
        let _ = std::fs::write(
            evdir.join(format!("{}.json", ctx.property)),
            serde_json::to_string_pretty(&ev).unwrap(),
        );
    }
    eprintln!(
        "[{}] total evaluations={} distinct_nontrivial={} violations={} wall={:.1}s",
        ctx.property,
        total.evaluations,
        total.nontrivial.len(),
        violations.len(),
        wall
    );
    if !violations.is_empty() {
        1
    } else if !inconclusive.is_empty() {
        2
    } else {
        0
    }
}

pub fn replay_property(ctx: &RunCtx, def: &PropertyDef, file: &std::path::Path) -> i32 {
    let text = match std::fs::read_to_string(file) {
        Ok(t) => t,
        Err(e) => {
            eprintln!("cannot read {}: {}", file.display(), e);
            return 2;
        },
    };
    let v: Value = match serde_json::from_str(&text) {
        Ok(v) => v,
        Err(e) => {
            eprintln!("cannot parse {}: {}", file.display(), e);
            return 2;
        },
    };
    let subname = v["sub"].as_str().unwrap_or("");
    for s in &def.subs {
        if s.name == subname {
            return match (s.replay)(ctx, &v["case"]) {
                Ok(()) => {
                    println!("replay: case passes (no violation)");
                    0
                },
                Err(m) if m.starts_with(INCONCLUSIVE) => {
                    eprintln!("{}", m);
                    2
                },
                Err(m) if m.starts_with(SKIP) => {
                    println!("replay: the scenario of this case cannot be set up ({}); no violation of {}", m, ctx.property);
                    0
                },
                Err(m) => {
                    println!("VIOLATION property={} replay={}", ctx.property, file.display());
                    eprintln!("  sub={} reason={}", subname, m);
                    1
                },
            };
        }
    }
    eprintln!("unknown sub-check {:?} for {}", subname, ctx.property);
    2
}
