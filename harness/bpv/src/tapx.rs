//! Reading the Fiat-Shamir boundary through the instrumented merlin copy (vendor/merlin-tap).
use curve25519_dalek::scalar::Scalar;
pub use merlin::tap::Event;

/// Run `f` with the tap armed on this thread and return its result with all events.
pub fn tapped<T>(f: impl FnOnce() -> T) -> (T, Vec<Event>) {
    merlin::tap::start();
    let r = std::panic::catch_unwind(std::panic::AssertUnwindSafe(f));
    let ev = merlin::tap::stop();
    match r {
        Ok(v) => (v, ev),
        Err(e) => std::panic::resume_unwind(e),
    }
}

/// Run a PROVER call with the tap armed and return the events of the prover's own protocol run only: everything up to the
/// challenge that follows the absorption of `B`. A prover may go on to do more on transcripts of its own afterwards (check its
/// proof by running the verifier on a clone of the caller's transcript, re-derive its challenges, ..); that is not part of
/// what it sends, absorbs into the caller's transcript or draws its nonces from.
pub fn tapped_prover<T>(f: impl FnOnce() -> T) -> (T, Vec<Event>) {
    let (r, mut ev) = tapped(f);
    let b_at = ev.iter().position(|e| matches!(e, Event::Append { label, .. } if label.as_slice() == b"B"));
    if let Some(b) = b_at {
        if let Some(c) = ev[b..].iter().position(|e| matches!(e, Event::Challenge { .. })) {
            ev.truncate(b + c + 1);
        }
    }
    (r, ev)
}

/// Outputs of the PROTOCOL's `challenge_bytes` calls (labels `y`, `z`, `e`), in order. Challenges that a verifier draws from
/// transcripts of its own (for its batch weights, say) carry other labels and are not the protocol's.
pub fn challenges(ev: &[Event]) -> Vec<Vec<u8>> {
    ev.iter()
        .filter_map(|e| match e {
            Event::Challenge { label, out } if matches!(label.as_slice(), b"y" | b"z" | b"e") => Some(out.clone()),
            _ => None,
        })
        .collect()
}

pub fn challenge_scalar(out: &[u8]) -> Scalar {
    let mut b = [0u8; 64];
    b.copy_from_slice(&out[..64]);
    Scalar::from_bytes_mod_order_wide(&b)
}

/// (label, length) of every absorbed message and every challenge, in order - the transcript layout.
pub fn layout(ev: &[Event]) -> Vec<(String, usize, bool)> {
    ev.iter()
        .filter_map(|e| match e {
            Event::Append { label, data } => Some((String::from_utf8_lossy(label).to_string(), data.len(), false)),
            Event::Challenge { label, out } => Some((String::from_utf8_lossy(label).to_string(), out.len(), true)),
            _ => None,
        })
        .collect()
}
