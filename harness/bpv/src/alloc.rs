//! Tracking global allocator: delegates to the system allocator; while armed on the calling thread it
//!  (a) counts bytes requested and the largest single request (C16 work bound), and
//!  (b) copies every block passed to `dealloc` into a per-thread arena so it can be scanned afterwards (C20).
//! `realloc` is deliberately NOT overridden: the default implementation is alloc + copy + dealloc through the
//! methods below, so the old block of a moving reallocation is seen like any other freed block.
use std::{
    alloc::{GlobalAlloc, Layout, System},
    cell::Cell,
};

pub struct Tracker;

const COUNT: u8 = 1;
const CAPTURE: u8 = 2;

thread_local! {
    static MODE: Cell<u8> = const { Cell::new(0) };
    static BYTES: Cell<u64> = const { Cell::new(0) };
    static MAXREQ: Cell<u64> = const { Cell::new(0) };
    static ALLOCS: Cell<u64> = const { Cell::new(0) };
    static ARENA: Cell<*mut u8> = const { Cell::new(std::ptr::null_mut()) };
    static ARENA_CAP: Cell<usize> = const { Cell::new(0) };
    static ARENA_LEN: Cell<usize> = const { Cell::new(0) };
    static OVERFLOW: Cell<bool> = const { Cell::new(false) };
    static FREED_BLOCKS: Cell<u64> = const { Cell::new(0) };
}

unsafe impl GlobalAlloc for Tracker {
    unsafe fn alloc(&self, layout: Layout) -> *mut u8 {
        let mode = MODE.try_with(|m| m.get()).unwrap_or(0);
        if mode & COUNT != 0 {
            let n = layout.size() as u64;
            let _ = BYTES.try_with(|b| b.set(b.get() + n));
            let _ = MAXREQ.try_with(|b| b.set(b.get().max(n)));
            let _ = ALLOCS.try_with(|b| b.set(b.get() + 1));
        }
        System.alloc(layout)
    }

    unsafe fn dealloc(&self, ptr: *mut u8, layout: Layout) {
        let mode = MODE.try_with(|m| m.get()).unwrap_or(0);
        if mode & CAPTURE != 0 {
            let n = layout.size();
            let _ = ARENA.try_with(|a| {
                let base = a.get();
                if base.is_null() {
                    return;
                }
                let len = ARENA_LEN.with(|l| l.get());
                let cap = ARENA_CAP.with(|c| c.get());
                if len + 8 + n > cap {
                    OVERFLOW.with(|o| o.set(true));
                    return;
                }
                std::ptr::copy_nonoverlapping((n as u64).to_le_bytes().as_ptr(), base.add(len), 8);
                std::ptr::copy_nonoverlapping(ptr, base.add(len + 8), n);
                ARENA_LEN.with(|l| l.set(len + 8 + n));
                FREED_BLOCKS.with(|f| f.set(f.get() + 1));
            });
        }
        System.dealloc(ptr, layout)
    }
}

/// Start counting allocations on this thread.
pub fn count_start() {
    BYTES.with(|b| b.set(0));
    MAXREQ.with(|b| b.set(0));
    ALLOCS.with(|b| b.set(0));
    MODE.with(|m| m.set(m.get() | COUNT));
}
/// Stop counting; returns (bytes requested, largest single request, number of requests).
pub fn count_stop() -> (u64, u64, u64) {
    MODE.with(|m| m.set(m.get() & !COUNT));
    (BYTES.with(|b| b.get()), MAXREQ.with(|b| b.get()), ALLOCS.with(|b| b.get()))
}

const ARENA_BYTES: usize = 64 << 20;

/// Start capturing freed blocks on this thread (the arena is allocated once per thread, outside the tracker).
pub fn capture_start() {
    ARENA.with(|a| {
        if a.get().is_null() {
            let p = unsafe { System.alloc(Layout::from_size_align(ARENA_BYTES, 16).unwrap()) };
            a.set(p);
            ARENA_CAP.with(|c| c.set(if p.is_null() { 0 } else { ARENA_BYTES }));
        }
    });
    ARENA_LEN.with(|l| l.set(0));
    OVERFLOW.with(|o| o.set(false));
    FREED_BLOCKS.with(|f| f.set(0));
    MODE.with(|m| m.set(m.get() | CAPTURE));
}
pub fn capture_pause() {
    MODE.with(|m| m.set(m.get() & !CAPTURE));
}
pub fn capture_resume() {
    MODE.with(|m| m.set(m.get() | CAPTURE));
}

pub struct Captured {
    pub blocks: Vec<Vec<u8>>,
    pub overflow: bool,
}

/// Stop capturing and return copies of every block freed while armed.
pub fn capture_stop() -> Captured {
    MODE.with(|m| m.set(m.get() & !CAPTURE));
    let base = ARENA.with(|a| a.get());
    let len = ARENA_LEN.with(|l| l.get());
    let mut blocks = vec![];
    let mut off = 0usize;
    while off + 8 <= len {
        let mut nb = [0u8; 8];
        unsafe { std::ptr::copy_nonoverlapping(base.add(off), nb.as_mut_ptr(), 8) };
        let n = u64::from_le_bytes(nb) as usize;
        let mut v = vec![0u8; n];
        unsafe { std::ptr::copy_nonoverlapping(base.add(off + 8), v.as_mut_ptr(), n) };
        blocks.push(v);
        off += 8 + n;
    }
    // do not leave secrets of this case in the arena
    if !base.is_null() {
        unsafe { std::ptr::write_bytes(base, 0, len) };
    }
    Captured {
        blocks,
        overflow: OVERFLOW.with(|o| o.get()),
    }
}
