//! Mutation operators on an accepted (statement, proof, transcript) triple, and garbage-proof construction.
use curve25519_dalek::scalar::Scalar;
use proptest::prelude::*;
use rand_core::RngCore;
use serde::{Deserialize, Serialize};
use tari_bulletproofs_plus::{
    range_parameters::RangeParameters,
    range_statement::RangeStatement,
    traits::Compressable,
    PedersenGens,
};

use crate::{
    eng::{ext_of, Engine},
    gen::{chacha, ctx_strategy, mask_of, rand_scalar, CtxSpec, Triple, BITS},
    refimpl::{vec_gens, Grp, Proof, Stmt, ELL},
};

/// monotone index map (keeps proptest shrinking effective)
pub fn pick(frac: u16, len: usize) -> usize {
    if len == 0 {
        0
    } else {
        (frac as usize * len) >> 16
    }
}

#[derive(Clone, Debug, Serialize, Deserialize, PartialEq, Eq, Hash)]
pub enum ScalarHow {
    Plus1,
    Neg,
    Zero,
    Uniform(u64),
    EllMinus1,
    /// non-canonical encodings
    Ell,
    EllPlus1,
    HighBit,
    AllFF,
    /// flip one bit of the 32-byte encoding
    FlipBit(u8),
}
impl ScalarHow {
    pub fn canonical(&self) -> bool {
        !matches!(self, ScalarHow::Ell | ScalarHow::EllPlus1 | ScalarHow::HighBit | ScalarHow::AllFF | ScalarHow::FlipBit(_))
    }

    pub fn apply(&self, old: &[u8; 32]) -> [u8; 32] {
        let s = Scalar::from_bytes_mod_order(*old);
        match self {
            ScalarHow::Plus1 => (s + Scalar::ONE).to_bytes(),
            ScalarHow::Neg => (-s).to_bytes(),
            ScalarHow::Zero => [0u8; 32],
            ScalarHow::Uniform(u) => rand_scalar(&mut chacha(*u)).to_bytes(),
            ScalarHow::EllMinus1 => (-Scalar::ONE).to_bytes(),
            ScalarHow::Ell => ELL,
            ScalarHow::EllPlus1 => {
                let mut b = ELL;
                b[0] += 1;
                b
            },
            ScalarHow::HighBit => {
                let mut b = *old;
                b[31] |= 0x80;
                b
            },
            ScalarHow::AllFF => [0xff; 32],
            ScalarHow::FlipBit(i) => {
                let mut b = *old;
                b[*i as usize / 8] ^= 1 << (*i % 8);
                b
            },
        }
    }
}
pub fn scalar_how() -> impl Strategy<Value = ScalarHow> {
    prop_oneof![
        3 => Just(ScalarHow::Plus1),
        2 => Just(ScalarHow::Neg),
        2 => Just(ScalarHow::Zero),
        3 => any::<u64>().prop_map(ScalarHow::Uniform),
        1 => Just(ScalarHow::EllMinus1),
        1 => Just(ScalarHow::Ell),
        1 => Just(ScalarHow::EllPlus1),
        1 => Just(ScalarHow::HighBit),
        1 => Just(ScalarHow::AllFF),
        2 => any::<u8>().prop_map(ScalarHow::FlipBit),
    ]
}

#[derive(Clone, Debug, Serialize, Deserialize, PartialEq, Eq, Hash)]
pub enum PointHow {
    /// a fresh valid point unrelated to anything
    Fresh(u64),
    /// the original point scaled by a nonzero scalar != 1
    Scaled(u64),
    /// original + h
    AddH,
    /// another point element of the same proof
    SameProof(u16),
    /// a vector generator / Pedersen generator
    Generator(u16),
    Identity,
    Undecodable,
    /// flip one bit of the 32-byte encoding (may or may not decode afterwards)
    FlipBit(u8),
}
pub fn point_how() -> impl Strategy<Value = PointHow> {
    prop_oneof![
        3 => any::<u64>().prop_map(PointHow::Fresh),
        2 => any::<u64>().prop_map(PointHow::Scaled),
        2 => Just(PointHow::AddH),
        2 => any::<u16>().prop_map(PointHow::SameProof),
        2 => any::<u16>().prop_map(PointHow::Generator),
        1 => Just(PointHow::Identity),
        1 => Just(PointHow::Undecodable),
        2 => any::<u8>().prop_map(PointHow::FlipBit),
    ]
}

pub fn fresh_point<P: Grp>(u: u64) -> P {
    let mut b = [0u8; 64];
    chacha(u ^ 0xf4e5).fill_bytes(&mut b);
    P::from_uniform(&b)
}
pub const UNDECODABLE: [u8; 32] = [0xff; 32];

impl PointHow {
    pub fn apply<P: Grp>(&self, old: &[u8; 32], all_points: &[[u8; 32]], h: &P, bits: usize) -> [u8; 32] {
        match self {
            PointHow::Fresh(u) => fresh_point::<P>(*u).enc(),
            PointHow::Scaled(u) => match P::dec(old) {
                Some(p) => {
                    let mut s = rand_scalar(&mut chacha(*u));
                    if s == Scalar::ONE || s == Scalar::ZERO {
                        s = Scalar::from(2u8);
                    }
                    p.mul(&s).enc()
                },
                None => fresh_point::<P>(*u).enc(),
            },
            PointHow::AddH => match P::dec(old) {
                Some(p) => p.add(h).enc(),
                None => h.enc(),
            },
            PointHow::SameProof(f) => all_points[pick(*f, all_points.len())],
            PointHow::Generator(f) => {
                let i = pick(*f, 2 * bits);
                if i < bits {
                    vec_gens::<P>(b'G', 0, bits)[i].enc()
                } else {
                    vec_gens::<P>(b'H', 0, bits)[i - bits].enc()
                }
            },
            PointHow::Identity => [0u8; 32],
            PointHow::Undecodable => UNDECODABLE,
            PointHow::FlipBit(i) => {
                let mut b = *old;
                b[*i as usize / 8] ^= 1 << (*i % 8);
                b
            },
        }
    }
}

#[derive(Clone, Debug, Serialize, Deserialize, PartialEq, Eq, Hash)]
pub enum ProofMut {
    /// position over [d1.., r1, s1]
    Scalar { pos: u16, how: ScalarHow },
    /// position over [A, A1, B, L0, R0, L1, R1, ..]
    Point { pos: u16, how: PointHow },
    PushPair(u64),
    PopPair,
    DupPair(u16),
    SwapLR(u16),
    SwapLL(u16, u16),
    /// change the degree tag only
    DegreeByte(u8),
    /// change the tag and the number of d1 elements together (true: +1, false: -1)
    DegreeResize(bool),
}
pub fn proof_mut() -> impl Strategy<Value = ProofMut> {
    prop_oneof![
        6 => (any::<u16>(), scalar_how()).prop_map(|(pos, how)| ProofMut::Scalar { pos, how }),
        8 => (any::<u16>(), point_how()).prop_map(|(pos, how)| ProofMut::Point { pos, how }),
        1 => any::<u64>().prop_map(ProofMut::PushPair),
        1 => Just(ProofMut::PopPair),
        1 => any::<u16>().prop_map(ProofMut::DupPair),
        1 => any::<u16>().prop_map(ProofMut::SwapLR),
        1 => (any::<u16>(), any::<u16>()).prop_map(|(a, b)| ProofMut::SwapLL(a, b)),
        1 => prop_oneof![Just(0u8), 1u8..=7, Just(255u8)].prop_map(ProofMut::DegreeByte),
        1 => any::<bool>().prop_map(ProofMut::DegreeResize),
    ]
}

impl ProofMut {
    pub fn kind(&self) -> String {
        match self {
            ProofMut::Scalar { how, .. } => format!("scalar:{:?}", how).split('(').next().unwrap().to_string(),
            ProofMut::Point { how, .. } => format!("point:{:?}", how).split('(').next().unwrap().to_string(),
            ProofMut::PushPair(_) => "push-pair".into(),
            ProofMut::PopPair => "pop-pair".into(),
            ProofMut::DupPair(_) => "dup-pair".into(),
            ProofMut::SwapLR(_) => "swap-LR".into(),
            ProofMut::SwapLL(..) => "swap-LL".into(),
            ProofMut::DegreeByte(_) => "degree-byte".into(),
            ProofMut::DegreeResize(_) => "degree-resize".into(),
        }
    }

    /// Apply to the encoded proof. The result may no longer be parseable (that is the point of some operators).
    pub fn apply<P: Grp>(&self, bytes: &[u8], h: &P, bits: usize) -> Vec<u8> {
        let mut pf = match Proof::parse_layout(bytes) {
            Ok(p) => p,
            Err(_) => return bytes.to_vec(),
        };
        match self {
            ProofMut::Scalar { pos, how } => {
                let n = pf.d1.len() + 2;
                let i = pick(*pos, n);
                let slot = if i < pf.d1.len() {
                    &mut pf.d1[i]
                } else if i == pf.d1.len() {
                    &mut pf.r1
                } else {
                    &mut pf.s1
                };
                *slot = how.apply(slot);
            },
            ProofMut::Point { pos, how } => {
                let mut all = vec![pf.a, pf.a1, pf.b];
                for (l, r) in pf.l.iter().zip(pf.r.iter()) {
                    all.push(*l);
                    all.push(*r);
                }
                let i = pick(*pos, all.len());
                let new = how.apply::<P>(&all[i], &all, h, bits);
                match i {
                    0 => pf.a = new,
                    1 => pf.a1 = new,
                    2 => pf.b = new,
                    _ => {
                        let j = (i - 3) / 2;
                        if (i - 3) % 2 == 0 {
                            pf.l[j] = new
                        } else {
                            pf.r[j] = new
                        }
                    },
                }
            },
            ProofMut::PushPair(u) => {
                pf.l.push(fresh_point::<P>(*u).enc());
                pf.r.push(fresh_point::<P>(u.wrapping_add(1)).enc());
            },
            ProofMut::PopPair => {
                pf.l.pop();
                pf.r.pop();
            },
            ProofMut::DupPair(f) => {
                if !pf.l.is_empty() {
                    let j = pick(*f, pf.l.len());
                    let (l, r) = (pf.l[j], pf.r[j]);
                    pf.l.insert(j, l);
                    pf.r.insert(j, r);
                }
            },
            ProofMut::SwapLR(f) => {
                if !pf.l.is_empty() {
                    let j = pick(*f, pf.l.len());
                    std::mem::swap(&mut pf.l[j], &mut pf.r[j]);
                }
            },
            ProofMut::SwapLL(a, b) => {
                if pf.l.len() >= 2 {
                    let i = pick(*a, pf.l.len());
                    let mut j = pick(*b, pf.l.len());
                    if i == j {
                        j = (j + 1) % pf.l.len();
                    }
                    pf.l.swap(i, j);
                }
            },
            ProofMut::DegreeByte(b) => {
                let mut v = bytes.to_vec();
                v[0] = *b;
                return v;
            },
            ProofMut::DegreeResize(up) => {
                if *up {
                    pf.d1.push(Scalar::from(7u8).to_bytes());
                    pf.ext += 1;
                } else if pf.d1.len() > 1 {
                    pf.d1.pop();
                    pf.ext -= 1;
                }
            },
        }
        pf.encode()
    }
}

/// How a point of the statement (commitment or Pedersen generator) is replaced
#[derive(Clone, Debug, Serialize, Deserialize, PartialEq, Eq, Hash)]
pub enum StPointHow {
    Fresh(u64),
    AddH,
    AddG0,
    Scaled(u64),
    Identity,
}
pub fn st_point_how() -> impl Strategy<Value = StPointHow> {
    prop_oneof![
        3 => any::<u64>().prop_map(StPointHow::Fresh),
        2 => Just(StPointHow::AddH),
        2 => Just(StPointHow::AddG0),
        2 => any::<u64>().prop_map(StPointHow::Scaled),
        1 => Just(StPointHow::Identity),
    ]
}
impl StPointHow {
    pub fn apply<P: Grp>(&self, old: &P, h: &P, g0: &P) -> P {
        match self {
            StPointHow::Fresh(u) => fresh_point::<P>(*u),
            StPointHow::AddH => old.add(h),
            StPointHow::AddG0 => old.add(g0),
            StPointHow::Scaled(u) => {
                let mut s = rand_scalar(&mut chacha(*u));
                if s == Scalar::ONE || s == Scalar::ZERO {
                    s = Scalar::from(2u8);
                }
                old.mul(&s)
            },
            StPointHow::Identity => P::zero(),
        }
    }
}

#[derive(Clone, Debug, Serialize, Deserialize, PartialEq, Eq, Hash)]
pub enum PromHow {
    Plus1,
    Minus1,
    ToNone,
    ToSome0,
    Raw(u64),
    MaxInRange,
    /// 2^bits (out of range unless bits == 64, where it is skipped)
    TwoPowBits,
    U64Max,
    /// flip bit i of the promise (i is reduced modulo the bit length, so the result stays in range)
    FlipBitInRange(u8),
}
pub fn prom_how() -> impl Strategy<Value = PromHow> {
    prop_oneof![
        3 => Just(PromHow::Plus1),
        3 => Just(PromHow::Minus1),
        2 => Just(PromHow::ToNone),
        2 => Just(PromHow::ToSome0),
        2 => any::<u64>().prop_map(PromHow::Raw),
        1 => Just(PromHow::MaxInRange),
        1 => Just(PromHow::TwoPowBits),
        1 => Just(PromHow::U64Max),
        2 => any::<u8>().prop_map(PromHow::FlipBitInRange),
    ]
}
impl PromHow {
    pub fn apply(&self, old: Option<u64>, bits: usize) -> Option<u64> {
        let o = old.unwrap_or(0);
        match self {
            PromHow::Plus1 => Some(o.wrapping_add(1)),
            PromHow::Minus1 => Some(o.wrapping_sub(1)),
            PromHow::ToNone => None,
            PromHow::ToSome0 => Some(0),
            PromHow::Raw(r) => Some(r & mask_of(bits)),
            PromHow::MaxInRange => Some(mask_of(bits)),
            PromHow::TwoPowBits => {
                if bits < 64 {
                    Some(1u64 << bits)
                } else {
                    Some(o.wrapping_add(1))
                }
            },
            PromHow::U64Max => Some(u64::MAX),
            PromHow::FlipBitInRange(i) => Some(o ^ (1u64 << (*i as usize % bits))),
        }
    }
}

/// How the COMPRESSED COPY of a point is rewritten by hand (the point itself stays; the fields are public)
#[derive(Clone, Debug, Serialize, Deserialize, PartialEq, Eq, Hash)]
pub enum CompHow {
    /// one bit of the 32 bytes, bit 255 included
    FlipBit(u8),
    /// the encoding of another point
    Fresh(u64),
}
#[derive(Clone, Debug, Serialize, Deserialize, PartialEq, Eq, Hash)]
pub enum CompEdit {
    Commitment { j: u16, how: CompHow },
    H(CompHow),
    G { k: u16, how: CompHow },
    /// the list of compressed commitments as a whole: 0 => emptied, 1 => last entry dropped, 2 => last entry repeated, 3 => reversed
    List(u8),
}

#[derive(Clone, Debug, Serialize, Deserialize, PartialEq, Eq, Hash)]
pub enum StMut {
    /// only the compressed copy that the statement / generator set carries next to a point (a statement edited by hand)
    CompressedCopy(CompEdit),
    Commitment { j: u16, how: StPointHow },
    SwapCommitments(u16, u16),
    Promise { j: u16, how: PromHow },
    /// index into BITS; skipped when it names the current bit length
    BitLength(u8),
    HBase(StPointHow),
    GBase { k: u16, how: StPointHow },
    Context(CtxSpec),
    /// append one more context message
    ContextExtra(Vec<u8>),
}
pub fn st_mut() -> impl Strategy<Value = StMut> {
    prop_oneof![
        4 => (any::<u16>(), st_point_how()).prop_map(|(j, how)| StMut::Commitment { j, how }),
        1 => (any::<u16>(), any::<u16>()).prop_map(|(a, b)| StMut::SwapCommitments(a, b)),
        4 => (any::<u16>(), prom_how()).prop_map(|(j, how)| StMut::Promise { j, how }),
        1 => (0u8..7).prop_map(StMut::BitLength),
        1 => st_point_how().prop_map(StMut::HBase),
        2 => (any::<u16>(), st_point_how()).prop_map(|(k, how)| StMut::GBase { k, how }),
        1 => ctx_strategy().prop_map(StMut::Context),
        1 => prop::collection::vec(any::<u8>(), 0..8).prop_map(StMut::ContextExtra),
    ]
}

impl StMut {
    pub fn kind(&self) -> String {
        match self {
            StMut::CompressedCopy(e) => format!("compressed-copy:{:?}", e).split([' ', '(', '{']).next().unwrap().to_string(),
            StMut::Commitment { how, .. } => format!("commitment:{:?}", how).split('(').next().unwrap().to_string(),
            StMut::SwapCommitments(..) => "swap-commitments".into(),
            StMut::Promise { how, .. } => format!("promise:{:?}", how).split('(').next().unwrap().to_string(),
            StMut::BitLength(_) => "bit-length".into(),
            StMut::HBase(how) => format!("h-base:{:?}", how).split('(').next().unwrap().to_string(),
            StMut::GBase { how, .. } => format!("g-base:{:?}", how).split('(').next().unwrap().to_string(),
            StMut::Context(_) => "context".into(),
            StMut::ContextExtra(_) => "context-extra".into(),
        }
    }
}

/// The public part of a triple in an editable form.
pub struct PubStatement<E: Engine> {
    pub bits: usize,
    pub cap: usize,
    pub ext: usize,
    pub h: E::P,
    pub g: Vec<E::P>,
    pub commitments: Vec<E::P>,
    pub promises: Vec<Option<u64>>,
    pub ctx: CtxSpec,
    /// edit of a compressed copy, applied by `statement()` after the validating constructors have run
    pub comp: Option<CompEdit>,
}

pub enum Applied {
    /// the mutation changed the statement
    Changed,
    /// the mutation is the documented equivalence None <-> Some(0)
    Equivalent,
    /// the mutation left the statement identical (e.g. swapping equal commitments)
    Noop,
}

impl<E: Engine> Clone for PubStatement<E> {
    fn clone(&self) -> Self {
        PubStatement {
            bits: self.bits,
            cap: self.cap,
            ext: self.ext,
            h: self.h.clone(),
            g: self.g.clone(),
            commitments: self.commitments.clone(),
            promises: self.promises.clone(),
            ctx: self.ctx.clone(),
            comp: self.comp.clone(),
        }
    }
}

impl<E: Engine> PubStatement<E> {
    pub fn of(t: &Triple<E>) -> Self {
        PubStatement {
            bits: t.cfg.bits,
            cap: t.cfg.cap,
            ext: t.cfg.ext,
            h: t.params.h_base().clone(),
            g: t.params.g_bases().to_vec(),
            commitments: t.commitments.clone(),
            promises: t.promises.clone(),
            ctx: t.spec.ctx.clone(),
            comp: None,
        }
    }

    pub fn apply(&mut self, m: &StMut) -> Applied {
        match m {
            StMut::CompressedCopy(e) => {
                if let CompEdit::List(3) = e {
                    let mut r = self.commitments.clone();
                    r.reverse();
                    if r == self.commitments {
                        return Applied::Noop;
                    }
                }
                self.comp = Some(e.clone());
                Applied::Changed
            },
            StMut::Commitment { j, how } => {
                let j = pick(*j, self.commitments.len());
                let new = how.apply(&self.commitments[j], &self.h, &self.g[0]);
                if new == self.commitments[j] {
                    return Applied::Noop;
                }
                self.commitments[j] = new;
                Applied::Changed
            },
            StMut::SwapCommitments(a, b) => {
                let n = self.commitments.len();
                if n < 2 {
                    return Applied::Noop;
                }
                let i = pick(*a, n);
                let mut j = pick(*b, n);
                if i == j {
                    j = (j + 1) % n;
                }
                // only the commitments move; the promise vector stays where it is
                if self.commitments[i] == self.commitments[j] {
                    return Applied::Noop;
                }
                self.commitments.swap(i, j);
                Applied::Changed
            },
            StMut::Promise { j, how } => {
                let j = pick(*j, self.promises.len());
                let old = self.promises[j];
                let new = how.apply(old, self.bits);
                if new == old {
                    return Applied::Noop;
                }
                self.promises[j] = new;
                if new.unwrap_or(0) == old.unwrap_or(0) {
                    Applied::Equivalent
                } else {
                    Applied::Changed
                }
            },
            StMut::BitLength(i) => {
                let nb = BITS[*i as usize % BITS.len()];
                if nb == self.bits {
                    return Applied::Noop;
                }
                self.bits = nb;
                Applied::Changed
            },
            StMut::HBase(how) => {
                let new = how.apply(&self.h, &self.g[0], &self.g[0]);
                if new == self.h {
                    return Applied::Noop;
                }
                self.h = new;
                Applied::Changed
            },
            StMut::GBase { k, how } => {
                let k = pick(*k, self.g.len());
                let new = how.apply(&self.g[k], &self.h, &fresh_point::<E::P>(77));
                if new == self.g[k] {
                    return Applied::Noop;
                }
                self.g[k] = new;
                Applied::Changed
            },
            StMut::Context(c) => {
                if *c == self.ctx {
                    return Applied::Noop;
                }
                self.ctx = c.clone();
                Applied::Changed
            },
            StMut::ContextExtra(m) => {
                self.ctx.msgs.push((0, m.clone()));
                Applied::Changed
            },
        }
    }

    pub fn pedersen(&self) -> PedersenGens<E::P> {
        PedersenGens {
            h_base: self.h.clone(),
            h_base_compressed: self.h.compress(),
            g_base_compressed_vec: self.g.iter().map(|p| p.compress()).collect(),
            g_base_vec: self.g.clone(),
            extension_degree: ext_of(self.ext),
        }
    }

    /// Build the library statement through the validating constructors.
    pub fn statement(&self, seed: Option<Scalar>) -> Result<RangeStatement<E::P>, String> {
        use tari_bulletproofs_plus::traits::FixedBytesRepr;
        fn rewrite<C: FixedBytesRepr, P: Grp + Compressable<Compressed = C>>(c: &C, how: &CompHow) -> C {
            match how {
                CompHow::FlipBit(b) => {
                    let mut bytes = *c.as_fixed_bytes();
                    bytes[*b as usize / 8] ^= 1 << (*b % 8);
                    C::from_fixed_bytes(bytes)
                },
                CompHow::Fresh(x) => fresh_point::<P>(*x ^ 0xc0de).compress(),
            }
        }
        let (rh, rg) = <E::P as Grp>::pedersen(self.ext);
        let gens_edit = matches!(self.comp, Some(CompEdit::H(_)) | Some(CompEdit::G { .. }));
        let params = if rh == self.h && rg == self.g && !gens_edit {
            E::params(self.bits, self.cap, self.ext)
        } else {
            let mut pc = self.pedersen();
            match &self.comp {
                Some(CompEdit::H(how)) => pc.h_base_compressed = rewrite::<_, E::P>(&pc.h_base_compressed, how),
                Some(CompEdit::G { k, how }) => {
                    let k = pick(*k, pc.g_base_compressed_vec.len());
                    pc.g_base_compressed_vec[k] = rewrite::<_, E::P>(&pc.g_base_compressed_vec[k], how);
                },
                _ => {},
            }
            RangeParameters::init(self.bits, self.cap, pc)
        }
        .map_err(|e| format!("params: {:?}", e))?;
        let mut st = RangeStatement::init(params, self.commitments.clone(), self.promises.clone(), seed).map_err(|e| format!("statement: {:?}", e))?;
        match &self.comp {
            Some(CompEdit::Commitment { j, how }) => {
                let j = pick(*j, st.commitments_compressed.len());
                st.commitments_compressed[j] = rewrite::<_, E::P>(&st.commitments_compressed[j], how);
            },
            Some(CompEdit::List(0)) => st.commitments_compressed.clear(),
            Some(CompEdit::List(1)) => {
                st.commitments_compressed.pop();
            },
            Some(CompEdit::List(2)) => {
                let last = *st.commitments_compressed.last().expect("at least one commitment");
                st.commitments_compressed.push(last);
            },
            Some(CompEdit::List(_)) => st.commitments_compressed.reverse(),
            _ => {},
        }
        Ok(st)
    }

    pub fn ref_stmt(&self) -> Stmt<E::P> {
        Stmt {
            bits: self.bits,
            h: self.h.clone(),
            g: self.g.clone(),
            commitments: self.commitments.clone(),
            promises: self.promises.clone(),
        }
    }
}
