//! bpv: property-based / fuzzing verification harness for tari_bulletproofs_plus (see /verif/DESIGN.md).
pub mod alloc;
pub mod eng;
pub mod fp;
pub mod fuzzdec;
pub mod gen;
pub mod mutate;
pub mod props;
pub mod refimpl;
pub mod runner;
pub mod tapx;

#[global_allocator]
static GLOBAL: alloc::Tracker = alloc::Tracker;
