//! Byte-level entry points shared by the libFuzzer targets (harness/fuzz) and the corpus-replay sub-checks:
//! the fuzzer's bytes are decoded into structured arguments here, and the semantic oracle lives inside the target.
use std::sync::OnceLock;

use curve25519_dalek::RistrettoPoint;
use merlin::Transcript;
use tari_bulletproofs_plus::{
    range_proof::{RangeProof, VerifyAction},
    range_statement::RangeStatement,
};

use crate::{
    eng::{Engine, RngSpec, R},
    gen::{mask_of, Cfg, CtxSpec, SeedSpec, SlotSpec, Triple, TripleSpec},
    mutate::{fresh_point, PubStatement},
    props::{c02::verdicts, c15::check_string},
    runner::guarded,
};

pub struct Cursor<'a> {
    d: &'a [u8],
    p: usize,
}
impl<'a> Cursor<'a> {
    pub fn new(d: &'a [u8]) -> Self {
        Cursor { d, p: 0 }
    }

    pub fn u8(&mut self) -> u8 {
        let v = self.d.get(self.p).copied().unwrap_or(0);
        self.p += 1;
        v
    }

    pub fn u16(&mut self) -> u16 {
        u16::from_le_bytes([self.u8(), self.u8()])
    }

    pub fn u64(&mut self) -> u64 {
        let mut b = [0u8; 8];
        for x in b.iter_mut() {
            *x = self.u8();
        }
        u64::from_le_bytes(b)
    }

    pub fn bytes(&mut self, n: usize) -> Vec<u8> {
        let end = (self.p + n).min(self.d.len());
        let v = if self.p < self.d.len() { self.d[self.p..end].to_vec() } else { vec![] };
        self.p += n;
        v
    }
}

/// `decode` target: C15's in-target oracle on the raw bytes (Ristretto instantiation).
pub fn decode_target(data: &[u8]) -> Result<(), String> {
    check_string::<R>(data).map(|_| ())
}

pub struct PoolEntry {
    pub cfg: Cfg,
    pub ps: PubStatement<R>,
    pub proof: Vec<u8>,
}

const POOL_CFGS: [(usize, usize, usize, usize); 10] = [
    (1, 2, 2, 1),
    (2, 1, 1, 2),
    (2, 2, 4, 3),
    (4, 1, 2, 1),
    (4, 2, 2, 6),
    (8, 1, 1, 4),
    (8, 4, 4, 2),
    (16, 1, 1, 1),
    (4, 4, 8, 5),
    (64, 1, 2, 1),
];

pub fn pool() -> &'static Vec<PoolEntry> {
    static POOL: OnceLock<Vec<PoolEntry>> = OnceLock::new();
    POOL.get_or_init(|| {
        POOL_CFGS
            .iter()
            .enumerate()
            .map(|(i, &(bits, m, cap, ext))| {
                let spec = TripleSpec {
                    cfg: Cfg { bits, m, cap, ext },
                    slots: vec![SlotSpec {
                        vclass: 5,
                        vraw: i as u64 * 977,
                        pclass: (i % 6) as u8,
                        praw: 5,
                        bclass: vec![0; 6],
                    }],
                    ctx: CtxSpec::default(),
                    rng: RngSpec::ChaCha(i as u64),
                    seed: SeedSpec::None,
                    bulk: 1000 + i as u64,
                };
                let t = Triple::<R>::build(&spec).expect("pool triple");
                let proof = t.prove().expect("pool proof").to_bytes();
                PoolEntry {
                    cfg: spec.cfg,
                    ps: PubStatement::<R>::of(&t),
                    proof,
                }
            })
            .collect()
    })
}

/// `verify` target: bytes -> (batch of 1-3 members, statements through the validating constructors with commitments /
/// promises / context from the input, proofs = raw bytes or pool proofs with byte-level splices, verify mode).
/// Oracle: no panic; single member: verdict == reference verdict (both directions); batch: verdict == AND of singletons.
pub fn verify_target(data: &[u8]) -> Result<(), String> {
    verify_target_mode(data, false)
}

/// `panic_only`: only panic-freedom is judged (C16's reading of a stored input); the comparison with the reference verdict
/// and with the singleton verdicts belongs to C02 / C03 and is skipped.
pub fn verify_target_mode(data: &[u8], panic_only: bool) -> Result<(), String> {
    let pool = pool();
    let mut c = Cursor::new(data);
    let n = 1 + (c.u8() % 3) as usize;
    let mode = [VerifyAction::VerifyOnly, VerifyAction::RecoverAndVerify, VerifyAction::RecoverOnly][(c.u8() % 3) as usize];
    let first = (c.u8() as usize) % pool.len();
    let mut members: Vec<(PubStatement<R>, RangeStatement<RistrettoPoint>, RangeProof<RistrettoPoint>, Vec<u8>)> = vec![];
    for i in 0..n {
        // members after the first either share the first member's configuration (deep paths) or pick their own
        let sel = c.u8();
        let e = if i > 0 && sel & 0x80 == 0 { &pool[first] } else { &pool[(sel as usize) % pool.len()] };
        let mut ps = e.ps.clone();
        let sk = c.u8();
        if sk & 1 != 0 {
            let j = (c.u8() as usize) % ps.commitments.len();
            ps.commitments[j] = fresh_point::<RistrettoPoint>(c.u64());
        }
        if sk & 2 != 0 {
            let j = (c.u8() as usize) % ps.promises.len();
            let raw = c.u64();
            ps.promises[j] = if sk & 4 != 0 { Some(raw) } else { Some(raw & mask_of(e.cfg.bits)) };
        }
        if sk & 8 != 0 {
            ps.ctx.label = c.u8() % 6;
        }
        if sk & 16 != 0 {
            ps.ctx.msgs.push((c.u8() % 4, c.bytes((sk >> 5) as usize)));
        }
        let pk = c.u8() % 4;
        let bytes: Vec<u8> = match pk {
            0 => e.proof.clone(),
            1 => {
                let mut b = e.proof.clone();
                let k = 1 + c.u8() % 3;
                for _ in 0..k {
                    let off = (c.u16() as usize) % b.len();
                    let len = (c.u8() % 40) as usize;
                    let repl = c.bytes(len);
                    for (x, y) in b[off..].iter_mut().zip(repl.iter()) {
                        *x = *y;
                    }
                }
                b
            },
            2 => pool[(c.u8() as usize) % pool.len()].proof.clone(),
            _ => {
                let len = (c.u16() as usize) % 2400;
                c.bytes(len)
            },
        };
        let st = match guarded(|| ps.statement(None))? {
            Ok(s) => s,
            Err(_) => continue,
        };
        let proof = match guarded(|| RangeProof::<RistrettoPoint>::from_bytes(&bytes)).map_err(|e| format!("{} in from_bytes", e))? {
            Ok(p) => p,
            Err(_) => continue,
        };
        members.push((ps, st, proof, bytes));
    }
    if members.is_empty() {
        return Ok(());
    }
    let mut ts: Vec<Transcript> = members.iter().map(|m| m.0.ctx.transcript()).collect();
    let sts: Vec<RangeStatement<RistrettoPoint>> = members.iter().map(|m| m.1.clone()).collect();
    let proofs: Vec<RangeProof<RistrettoPoint>> = members.iter().map(|m| m.2.clone()).collect();
    let batch = guarded(|| R::verify(&mut ts, &sts, &proofs, mode)).map_err(|e| format!("{} in verify_batch (batch of {})", e, members.len()))?;
    if panic_only {
        return Ok(());
    }
    // singleton verdicts, cross-checked with the reference verifier
    let mut all = true;
    for (ps, st, _, bytes) in &members {
        let (lib_ok, holds, strict) = verdicts::<R>(ps, st, bytes, None)?;
        if lib_ok && !holds {
            return Err("verifier ACCEPTS but the reference relation does not hold".into());
        }
        if strict && !lib_ok {
            return Err("reference relation holds and no documented refusal applies, but the verifier rejects".into());
        }
        all &= lib_ok;
    }
    if mode != VerifyAction::RecoverOnly {
        let consistent = members.iter().all(|m| m.0.bits == members[0].0.bits && m.0.ext == members[0].0.ext);
        if batch.is_ok() && !all {
            return Err(format!("batch of {} ACCEPTED although a member does not verify on its own", members.len()));
        }
        if batch.is_err() && all && consistent {
            return Err(format!("batch of {} rejected although every member verifies on its own", members.len()));
        }
        if let Ok(v) = &batch {
            if v.len() != members.len() {
                return Err(format!("{} results for a batch of {}", v.len(), members.len()));
            }
        }
    }
    Ok(())
}

/// Seed corpus for both targets (small valid inputs + boundary strings).
pub fn seed_corpus() -> (Vec<Vec<u8>>, Vec<Vec<u8>>) {
    let pool = pool();
    let mut dec: Vec<Vec<u8>> = pool.iter().map(|e| e.proof.clone()).collect();
    dec.push(vec![]);
    dec.push(vec![1]);
    for d in 1..=6u8 {
        let mut v = vec![d];
        v.extend(vec![0u8; 32 * (5 + d as usize + 2)]);
        dec.push(v);
    }
    let mut ell = vec![1u8];
    ell.extend_from_slice(&crate::refimpl::ELL);
    ell.extend(vec![0u8; 32 * 7]);
    dec.push(ell);
    let mut ver: Vec<Vec<u8>> = vec![];
    for i in 0..pool.len() as u8 {
        // one honest member of pool entry i, each mode
        for mode in 0..3u8 {
            ver.push(vec![0, mode, i, i, 0, 0]);
        }
        // two members sharing the configuration, second with one splice
        ver.push(vec![1, 0, i, i, 0, 0, 0, 0, 1, 0, 40, 0, 4, 1, 2, 3, 4]);
        // raw proof bytes
        let mut raw = vec![0, 0, i, i, 0, 3];
        let p = &pool[i as usize].proof;
        raw.extend_from_slice(&(p.len() as u16).to_le_bytes());
        raw.extend_from_slice(p);
        ver.push(raw);
    }
    (dec, ver)
}

// ---------------------------------------------------------------------------------------------------------------------
// corpus replay as a sub-check (quick tier): every stored input runs through the same in-target oracle, no libFuzzer

#[derive(Clone, Debug, serde::Serialize, serde::Deserialize)]
pub struct CorpusCase {
    /// judge panic-freedom only (C16)
    #[serde(default)]
    pub panic_only: bool,
    pub target: String,
    pub name: String,
    pub bytes: Vec<u8>,
}

pub fn corpus_items(ctx: &crate::runner::RunCtx, target: &str) -> Vec<CorpusCase> {
    let panic_only = ctx.property == "C16";
    let mut v = vec![];
    for dir in ["vectors/corpus", "vectors/regress"] {
        let d = ctx.root.join(dir).join(target);
        let mut names: Vec<_> = std::fs::read_dir(&d).map(|r| r.filter_map(|e| e.ok().map(|e| e.path())).collect()).unwrap_or_default();
        names.sort();
        for p in names {
            if let Ok(bytes) = std::fs::read(&p) {
                v.push(CorpusCase {
                    panic_only,
                    target: target.to_string(),
                    name: p.file_name().map(|s| s.to_string_lossy().to_string()).unwrap_or_default(),
                    bytes,
                });
            }
        }
    }
    v
}

pub fn corpus_oracle(_ctx: &crate::runner::RunCtx, c: &CorpusCase, log: &mut crate::runner::CaseLog) -> Result<(), String> {
    // the `verify` target interprets its bytes over a pool of honest proofs; if that pool cannot be made (the prover refuses a
    // valid witness: C01's subject) there is nothing to replay
    if c.target != "decode" && std::panic::catch_unwind(|| pool().len()).is_err() {
        return Err(format!("{} the pool of honest proofs of the `verify` target cannot be built (C01's subject)", crate::runner::SKIP));
    }
    let r = match c.target.as_str() {
        "decode" if c.panic_only => guarded(|| check_string::<R>(&c.bytes)).map(|_| ()),
        "decode" => decode_target(&c.bytes),
        _ => verify_target_mode(&c.bytes, c.panic_only),
    };
    r.map_err(|e| format!("fuzz target `{}` oracle fails on stored input {}: {}", c.target, c.name, e))?;
    log.label(format!("corpus:{}", c.target));
    log.nontrivial(&(c.target.clone(), c.bytes.clone()));
    log.sample(serde_json::json!({"kind": "stored fuzz input", "target": c.target, "name": c.name, "len": c.bytes.len()}));
    Ok(())
}

pub fn corpus_sub(target: &'static str) -> crate::runner::Sub {
    use proptest::prelude::Just;
    crate::runner::sub(
        &format!("R/corpus-replay({})", target),
        move |ctx: &crate::runner::RunCtx| corpus_items(ctx, target),
        (0, 0),
        |_: &crate::runner::RunCtx, f: Option<&CorpusCase>| Just(f.cloned().unwrap()),
        corpus_oracle,
    )
}
