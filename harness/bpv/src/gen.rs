//! Shared generators: configuration lattice, values / promises / blindings by class, transcript context, prover RNG
//! model, recovery seed; and materialisation of a generated spec into library objects on either engine.
use std::sync::Arc;

use curve25519_dalek::scalar::Scalar;
use merlin::Transcript;
use proptest::prelude::*;
use rand_chacha::ChaCha12Rng;
use rand_core::{RngCore, SeedableRng};
use serde::{Deserialize, Serialize};
use tari_bulletproofs_plus::{
    commitment_opening::CommitmentOpening,
    errors::ProofError,
    range_parameters::RangeParameters,
    range_proof::RangeProof,
    range_statement::RangeStatement,
    range_witness::RangeWitness,
};

use crate::{
    eng::{Engine, RngSpec},
    refimpl::{Grp, Stmt},
};

#[derive(Clone, Copy, Debug, Serialize, Deserialize, PartialEq, Eq, Hash, PartialOrd, Ord)]
pub struct Cfg {
    pub bits: usize,
    pub m: usize,
    pub cap: usize,
    pub ext: usize,
}

impl Cfg {
    pub fn nm(&self) -> usize {
        self.bits * self.m
    }

    pub fn rounds(&self) -> usize {
        self.nm().ilog2() as usize
    }

    pub fn label(&self) -> String {
        format!("bits={} m={} cap/m={} ext={}", self.bits, self.m, self.cap / self.m, self.ext)
    }

    /// is this one of the 16 tuples the repository's own suite visits (bits 4/8/32/64 x m 1/2/4 x ext 1..3, cap = m)?
    pub fn in_suite(&self) -> bool {
        [4, 8, 32, 64].contains(&self.bits) && [1, 2, 4].contains(&self.m) && self.cap == self.m && self.ext <= 3
    }
}

pub const BITS: [usize; 7] = [1, 2, 4, 8, 16, 32, 64];

/// Every (bits, m, cap) with bits*cap <= max_size, m <= max_m, cap = m * 2^t (t <= 3), each with one extension degree
/// chosen round-robin (so all six degrees are spread over the lattice); sorted by size.
pub fn lattice(max_size: usize, max_m: usize) -> Vec<Cfg> {
    let mut v = vec![];
    let mut rot = 0usize;
    for &bits in &BITS {
        let mut m = 1;
        while m <= max_m && bits * m <= max_size {
            let mut cap = m;
            let mut t = 0;
            while bits * cap <= max_size && t <= 3 {
                v.push(Cfg {
                    bits,
                    m,
                    cap,
                    ext: 1 + rot % 6,
                });
                rot += 1;
                cap *= 2;
                t += 1;
            }
            m *= 2;
        }
    }
    v.sort_by_key(|c| (c.bits * c.cap, c.bits, c.m, c.ext));
    v
}

/// Random configuration from the lattice (all six degrees), weight ~ 1/sqrt(bits*cap) so that big points still recur.
pub fn cfg_strategy(max_size: usize, max_m: usize) -> BoxedStrategy<Cfg> {
    let lat = Arc::new(lattice(max_size, max_m));
    let mut cum = vec![];
    let mut tot = 0u32;
    for c in lat.iter() {
        let w = (1000.0 / ((c.bits * c.cap) as f64).sqrt()).ceil() as u32;
        tot += w.max(1);
        cum.push(tot);
    }
    (0..tot, 1usize..=6)
        .prop_map(move |(x, ext)| {
            let i = cum.partition_point(|&c| c <= x);
            Cfg { ext, ..lat[i] }
        })
        .boxed()
}

#[derive(Clone, Debug, Serialize, Deserialize, PartialEq, Eq, Hash)]
pub struct SlotSpec {
    /// 0: 0, 1: 1, 2: 2^bits-1, 3: 2^(bits-1), 4: 2^(bits-1)-1, 5: uniform, 6: uniform top half
    pub vclass: u8,
    pub vraw: u64,
    /// 0: None, 1: Some(0), 2: Some(v), 3: Some(v-1), 4: Some(v/3), 5: uniform <= v
    pub pclass: u8,
    pub praw: u64,
    /// per blinding component: 0 uniform, 1 zero, 2 one, 3 minus one
    pub bclass: Vec<u8>,
}

pub const VCLASS: [&str; 7] = ["0", "1", "max", "top", "top-1", "uniform", "uniform-top-half"];
pub const PCLASS: [&str; 6] = ["None", "Some(0)", "Some(v)", "Some(v-1)", "Some(v/3)", "uniform<=v"];

pub fn slot_strategy() -> impl Strategy<Value = SlotSpec> {
    (
        0u8..7,
        any::<u64>(),
        0u8..6,
        any::<u64>(),
        prop::collection::vec(prop_oneof![7 => Just(0u8), 1 => Just(1u8), 1 => Just(2u8), 1 => Just(3u8)], 6),
    )
        .prop_map(|(vclass, vraw, pclass, praw, bclass)| {
            // one slot in ~40 is the all-zero opening: value 0 with every blinding component 0 (identity commitment)
            if vraw % 40 == 0 {
                SlotSpec {
                    vclass: 0,
                    vraw,
                    pclass: pclass % 2,
                    praw,
                    bclass: vec![1; 6],
                }
            } else {
                SlotSpec {
                    vclass,
                    vraw,
                    pclass,
                    praw,
                    bclass,
                }
            }
        })
}

pub fn mix(x: u64, j: u64) -> u64 {
    // splitmix64 step
    let mut z = x.wrapping_add(0x9E3779B97F4A7C15u64.wrapping_mul(j + 1));
    z = (z ^ (z >> 30)).wrapping_mul(0xBF58476D1CE4E5B9);
    z = (z ^ (z >> 27)).wrapping_mul(0x94D049BB133111EB);
    z ^ (z >> 31)
}

pub fn mask_of(bits: usize) -> u64 {
    if bits >= 64 {
        u64::MAX
    } else {
        (1u64 << bits) - 1
    }
}

impl SlotSpec {
    pub fn value(&self, bits: usize, j: usize) -> u64 {
        let mask = mask_of(bits);
        let top = 1u64 << (bits - 1);
        match self.vclass {
            0 => 0,
            1 => 1 & mask,
            2 => mask,
            3 => top,
            4 => top - 1,
            5 => mix(self.vraw, j as u64) & mask,
            _ => (mix(self.vraw, j as u64) & mask) | top,
        }
    }

    pub fn promise(&self, v: u64, j: usize) -> Option<u64> {
        match self.pclass {
            0 => None,
            1 => Some(0),
            2 => Some(v),
            3 => Some(v.saturating_sub(1)),
            4 => Some(v / 3),
            _ => Some((mix(self.praw, j as u64) as u128 % (v as u128 + 1)) as u64),
        }
    }

    pub fn blinding(&self, k: usize, bulk: &mut ChaCha12Rng) -> Scalar {
        let u = Scalar::random(bulk);
        match self.bclass[k % self.bclass.len()] {
            0 => u,
            1 => Scalar::ZERO,
            2 => Scalar::ONE,
            _ => -Scalar::ONE,
        }
    }
}

pub const CTX_LABELS: [&[u8]; 6] = [
    b"ctx",
    b"BatchedRangeProofTest",
    b"",
    b"Bulletproofs+ Range Proof",
    b"a rather long application specific transcript label, version 2",
    b"ctX",
];
pub const MSG_LABELS: [&[u8]; 4] = [b"app", b"dom-sep", b"H", b"network"];

#[derive(Clone, Debug, Serialize, Deserialize, PartialEq, Eq, Hash, Default)]
pub struct CtxSpec {
    pub label: u8,
    pub msgs: Vec<(u8, Vec<u8>)>,
}
impl CtxSpec {
    pub fn transcript(&self) -> Transcript {
        let mut t = Transcript::new(CTX_LABELS[self.label as usize % CTX_LABELS.len()]);
        for (l, m) in &self.msgs {
            t.append_message(MSG_LABELS[*l as usize % MSG_LABELS.len()], m);
        }
        t
    }
}
pub fn ctx_strategy() -> impl Strategy<Value = CtxSpec> {
    (
        0u8..CTX_LABELS.len() as u8,
        prop::collection::vec((0u8..MSG_LABELS.len() as u8, prop::collection::vec(any::<u8>(), 0..40)), 0..3),
    )
        .prop_map(|(label, msgs)| CtxSpec { label, msgs })
}

#[derive(Clone, Copy, Debug, Serialize, Deserialize, PartialEq, Eq, Hash)]
pub enum SeedSpec {
    None,
    Uniform(u64),
    Zero,
    One,
    MinusOne,
    /// the seed `Uniform(base)` with bit `bit` (0..=250) flipped: seeds that agree in all other bits
    Related(u64, u8),
}
impl SeedSpec {
    pub fn scalar(&self) -> Option<Scalar> {
        match *self {
            SeedSpec::None => None,
            SeedSpec::Uniform(s) => Some(Scalar::random(&mut ChaCha12Rng::seed_from_u64(s ^ 0x5eed))),
            SeedSpec::Zero => Some(Scalar::ZERO),
            SeedSpec::One => Some(Scalar::ONE),
            SeedSpec::MinusOne => Some(-Scalar::ONE),
            SeedSpec::Related(base, bit) => {
                let s = Scalar::random(&mut ChaCha12Rng::seed_from_u64(base ^ 0x5eed));
                let bit = (bit % 251) as usize;
                let mut pow = [0u8; 32];
                pow[bit / 8] = 1 << (bit % 8);
                let p = Scalar::from_bytes_mod_order(pow);
                Some(if s.as_bytes()[bit / 8] >> (bit % 8) & 1 == 0 { s + p } else { s - p })
            },
        }
    }

    pub fn class(&self) -> &'static str {
        match self {
            SeedSpec::None => "none",
            SeedSpec::Uniform(_) => "uniform",
            SeedSpec::Zero => "0",
            SeedSpec::One => "1",
            SeedSpec::MinusOne => "-1",
            SeedSpec::Related(..) => "one-bit-from-another-member's",
        }
    }
}
pub fn seed_strategy() -> impl Strategy<Value = SeedSpec> {
    prop_oneof![
        4 => Just(SeedSpec::None),
        4 => any::<u64>().prop_map(SeedSpec::Uniform),
        1 => Just(SeedSpec::Zero),
        1 => Just(SeedSpec::One),
        1 => Just(SeedSpec::MinusOne),
    ]
}
/// a seed that is always present
pub fn some_seed_strategy() -> impl Strategy<Value = SeedSpec> {
    prop_oneof![
        6 => any::<u64>().prop_map(SeedSpec::Uniform),
        1 => Just(SeedSpec::Zero),
        1 => Just(SeedSpec::One),
        1 => Just(SeedSpec::MinusOne),
    ]
}

pub fn rng_strategy() -> impl Strategy<Value = RngSpec> {
    prop_oneof![
        10 => any::<u64>().prop_map(RngSpec::ChaCha),
        1 => Just(RngSpec::Zero),
        1 => any::<u8>().prop_map(RngSpec::Const),
        1 => any::<u64>().prop_map(RngSpec::Period8),
        1 => any::<u64>().prop_map(RngSpec::Counter),
        1 => Just(RngSpec::Os),
    ]
}
pub fn healthy_rng_strategy() -> impl Strategy<Value = RngSpec> {
    any::<u64>().prop_map(RngSpec::ChaCha)
}

#[derive(Clone, Debug, Serialize, Deserialize, PartialEq, Eq, Hash)]
pub struct TripleSpec {
    pub cfg: Cfg,
    /// slot j of the aggregate uses slots[j % len]
    pub slots: Vec<SlotSpec>,
    pub ctx: CtxSpec,
    pub rng: RngSpec,
    /// only honoured when cfg.m == 1
    pub seed: SeedSpec,
    /// expands to the uniform blinding scalars
    pub bulk: u64,
}

pub fn triple_strategy(cfg: BoxedStrategy<Cfg>) -> impl Strategy<Value = TripleSpec> {
    (
        cfg,
        prop::collection::vec(slot_strategy(), 1..=3),
        ctx_strategy(),
        rng_strategy(),
        seed_strategy(),
        any::<u64>(),
    )
        .prop_map(|(cfg, slots, ctx, rng, seed, bulk)| TripleSpec {
            cfg,
            slots,
            ctx,
            rng,
            seed,
            bulk,
        })
}

/// A generated spec turned into library objects.
pub struct Triple<E: Engine> {
    pub spec: TripleSpec,
    pub cfg: Cfg,
    pub params: RangeParameters<E::P>,
    pub values: Vec<u64>,
    pub promises: Vec<Option<u64>>,
    pub blindings: Vec<Vec<Scalar>>,
    pub commitments: Vec<E::P>,
    pub seed: Option<Scalar>,
    pub st: RangeStatement<E::P>,
    pub w: RangeWitness,
}

pub fn err_s(e: ProofError) -> String {
    format!("{:?}", e)
}

impl<E: Engine> Triple<E> {
    pub fn build(spec: &TripleSpec) -> Result<Self, String> {
        let cfg = spec.cfg;
        let params = E::params(cfg.bits, cfg.cap, cfg.ext).map_err(|e| format!("{} params: {:?}", crate::runner::SKIP, e))?;
        let mut bulk = ChaCha12Rng::seed_from_u64(spec.bulk);
        // exact capacities: a growing vector would release earlier buffers holding raw copies of the values (C20 scans what is freed)
        let mut values = Vec::with_capacity(cfg.m);
        let mut promises = Vec::with_capacity(cfg.m);
        let mut blindings = Vec::with_capacity(cfg.m);
        let mut commitments = Vec::with_capacity(cfg.m);
        let mut openings = Vec::with_capacity(cfg.m);
        for j in 0..cfg.m {
            let s = &spec.slots[j % spec.slots.len()];
            let v = s.value(cfg.bits, j);
            let p = s.promise(v, j);
            let r: Vec<Scalar> = (0..cfg.ext).map(|k| s.blinding(k, &mut bulk)).collect();
            commitments.push(E::commit(params.pc_gens(), &Scalar::from(v), &r).map_err(|e| format!("{} commit: {:?}", crate::runner::SKIP, e))?);
            openings.push(CommitmentOpening::new(v, r.clone()));
            values.push(v);
            promises.push(p);
            blindings.push(r);
        }
        let seed = if cfg.m == 1 { spec.seed.scalar() } else { None };
        let st = RangeStatement::init(params.clone(), commitments.clone(), promises.clone(), seed)
            .map_err(|e| format!("{} statement: {:?}", crate::runner::SKIP, e))?;
        let w = RangeWitness::init(openings).map_err(|e| format!("{} witness: {:?}", crate::runner::SKIP, e))?;
        Ok(Triple {
            spec: spec.clone(),
            cfg,
            params,
            values,
            promises,
            blindings,
            commitments,
            seed,
            st,
            w,
        })
    }

    pub fn transcript(&self) -> Transcript {
        self.spec.ctx.transcript()
    }

    pub fn prove(&self) -> Result<RangeProof<E::P>, ProofError> {
        let mut rng = self.spec.rng.make();
        E::prove(&mut self.transcript(), &self.st, &self.w, &mut rng)
    }

    /// The same public statement with another seed / promise vector / capacity.
    pub fn statement_with(
        &self,
        seed: Option<Scalar>,
        promises: Option<Vec<Option<u64>>>,
        cap: Option<usize>,
    ) -> Result<RangeStatement<E::P>, ProofError> {
        let params = match cap {
            Some(c) => E::params(self.cfg.bits, c, self.cfg.ext)?,
            None => self.params.clone(),
        };
        RangeStatement::init(
            params,
            self.commitments.clone(),
            promises.unwrap_or_else(|| self.promises.clone()),
            seed,
        )
    }

    /// The reference model's view of the statement (built from the reference's own generators, not the library's).
    pub fn ref_stmt(&self) -> Stmt<E::P> {
        let (h, g) = <E::P as Grp>::pedersen(self.cfg.ext);
        Stmt {
            bits: self.cfg.bits,
            h,
            g,
            commitments: self.commitments.clone(),
            promises: self.promises.clone(),
        }
    }

    pub fn classes(&self) -> Vec<String> {
        let mut v = vec![
            format!("bits={}", self.cfg.bits),
            format!("m={}", self.cfg.m),
            format!("cap/m={}", self.cfg.cap / self.cfg.m),
            format!("ext={}", self.cfg.ext),
            format!("rng={}", self.spec.rng.class()),
            format!("seed={}", if self.seed.is_some() { self.spec.seed.class() } else { "none" }),
        ];
        for s in self.spec.slots.iter().take(self.cfg.m) {
            v.push(format!("value={}", VCLASS[s.vclass as usize]));
            v.push(format!("promise={}", PCLASS[s.pclass as usize]));
        }
        v
    }
}

/// Deterministic bulk randomness helper
pub fn chacha(seed: u64) -> ChaCha12Rng {
    ChaCha12Rng::seed_from_u64(seed)
}
pub fn rand_scalar(r: &mut impl RngCore) -> Scalar {
    let mut b = [0u8; 64];
    r.fill_bytes(&mut b);
    Scalar::from_bytes_mod_order_wide(&b)
}
