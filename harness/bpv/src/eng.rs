//! The two engines the checks run on: R (the real Ristretto instantiation through the public API) and F (the same
//! library code instantiated over the free module `FP`). The `Engine` trait hides the library's higher-ranked trait
//! bounds so that oracles can be written once.
use std::{cell::RefCell, collections::HashMap, fmt::Debug};

use curve25519_dalek::{ristretto::CompressedRistretto, scalar::Scalar, RistrettoPoint};
use merlin::Transcript;
use rand_chacha::ChaCha12Rng;
use rand_core::{CryptoRng, RngCore, SeedableRng};
use tari_bulletproofs_plus::{
    errors::ProofError,
    extended_mask::ExtendedMask,
    generators::pedersen_gens::ExtensionDegree,
    range_parameters::RangeParameters,
    range_proof::{RangeProof, VerifyAction},
    range_statement::RangeStatement,
    range_witness::RangeWitness,
    ristretto,
    traits::{Compressable, Decompressable, FixedBytesRepr, FromUniformBytes, Precomputable},
    PedersenGens,
};

use crate::{
    fp::{self, g_id, CFP, FP, H_ID},
    refimpl::Grp,
};

pub trait Engine: Sized + 'static {
    type P: Grp + Clone + PartialEq + Debug + Compressable<Compressed = Self::C> + Precomputable + FromUniformBytes;
    type C: Copy + PartialEq + Debug + FixedBytesRepr + Decompressable<Decompressed = Self::P>;
    const NAME: &'static str;
    const IS_F: bool;

    fn pedersen(ext: usize) -> PedersenGens<Self::P>;
    fn prove(
        t: &mut Transcript,
        st: &RangeStatement<Self::P>,
        w: &RangeWitness,
        rng: &mut HRng,
    ) -> Result<RangeProof<Self::P>, ProofError>;
    fn verify(
        ts: &mut [Transcript],
        sts: &[RangeStatement<Self::P>],
        proofs: &[RangeProof<Self::P>],
        action: VerifyAction,
    ) -> Result<Vec<Option<ExtendedMask>>, ProofError>;
    fn commit(pc: &PedersenGens<Self::P>, v: &Scalar, r: &[Scalar]) -> Result<Self::P, ProofError>;
    /// parameters for (bits, capacity, degree); R caches them per thread (construction itself is C11 / C18's subject)
    fn params(bits: usize, cap: usize, ext: usize) -> Result<RangeParameters<Self::P>, ProofError>;
    /// forget per-case engine state (F: the compressed-point registry)
    fn reset_case();
    fn proof_degree(p: &RangeProof<Self::P>) -> usize;
}

pub fn ext_of(ext: usize) -> ExtensionDegree {
    ExtensionDegree::try_from(ext).expect("extension degree 1..=6")
}

pub struct R;
pub struct F;

thread_local! {
    static R_PARAMS: RefCell<HashMap<(usize, usize, usize), RangeParameters<RistrettoPoint>>> = RefCell::new(HashMap::new());
}

impl Engine for R {
    type C = CompressedRistretto;
    type P = RistrettoPoint;

    const IS_F: bool = false;
    const NAME: &'static str = "R";

    fn pedersen(ext: usize) -> PedersenGens<RistrettoPoint> {
        ristretto::create_pedersen_gens_with_extension_degree(ext_of(ext))
    }

    fn prove(
        t: &mut Transcript,
        st: &RangeStatement<RistrettoPoint>,
        w: &RangeWitness,
        rng: &mut HRng,
    ) -> Result<RangeProof<RistrettoPoint>, ProofError> {
        if matches!(rng, HRng::Os) {
            return RangeProof::prove(t, st, w);
        }
        RangeProof::prove_with_rng(t, st, w, rng)
    }

    fn verify(
        ts: &mut [Transcript],
        sts: &[RangeStatement<RistrettoPoint>],
        proofs: &[RangeProof<RistrettoPoint>],
        action: VerifyAction,
    ) -> Result<Vec<Option<ExtendedMask>>, ProofError> {
        RangeProof::verify_batch(ts, sts, proofs, action)
    }

    fn commit(pc: &PedersenGens<RistrettoPoint>, v: &Scalar, r: &[Scalar]) -> Result<RistrettoPoint, ProofError> {
        pc.commit(v, r)
    }

    fn params(bits: usize, cap: usize, ext: usize) -> Result<RangeParameters<RistrettoPoint>, ProofError> {
        if let Some(p) = R_PARAMS.with(|c| c.borrow().get(&(bits, cap, ext)).cloned()) {
            return Ok(p);
        }
        let p = RangeParameters::init(bits, cap, Self::pedersen(ext))?;
        R_PARAMS.with(|c| {
            let mut c = c.borrow_mut();
            if c.len() > 64 {
                c.clear();
            }
            c.insert((bits, cap, ext), p.clone());
        });
        Ok(p)
    }

    fn reset_case() {}

    fn proof_degree(p: &RangeProof<RistrettoPoint>) -> usize {
        p.extension_degree() as usize
    }
}

impl Engine for F {
    type C = CFP;
    type P = FP;

    const IS_F: bool = true;
    const NAME: &'static str = "F";

    fn pedersen(ext: usize) -> PedersenGens<FP> {
        let h = FP::basis(H_ID);
        let g: Vec<FP> = (0..ext).map(|k| FP::basis(g_id(k))).collect();
        PedersenGens {
            h_base: h.clone(),
            h_base_compressed: h.compress(),
            g_base_compressed_vec: g.iter().map(|p| p.compress()).collect(),
            g_base_vec: g,
            extension_degree: ext_of(ext),
        }
    }

    fn prove(
        t: &mut Transcript,
        st: &RangeStatement<FP>,
        w: &RangeWitness,
        rng: &mut HRng,
    ) -> Result<RangeProof<FP>, ProofError> {
        if matches!(rng, HRng::Os) {
            return RangeProof::prove(t, st, w);
        }
        RangeProof::prove_with_rng(t, st, w, rng)
    }

    fn verify(
        ts: &mut [Transcript],
        sts: &[RangeStatement<FP>],
        proofs: &[RangeProof<FP>],
        action: VerifyAction,
    ) -> Result<Vec<Option<ExtendedMask>>, ProofError> {
        RangeProof::verify_batch(ts, sts, proofs, action)
    }

    fn commit(pc: &PedersenGens<FP>, v: &Scalar, r: &[Scalar]) -> Result<FP, ProofError> {
        pc.commit(v, r)
    }

    fn params(bits: usize, cap: usize, ext: usize) -> Result<RangeParameters<FP>, ProofError> {
        RangeParameters::init(bits, cap, Self::pedersen(ext))
    }

    fn reset_case() {
        fp::reset_registry();
    }

    fn proof_degree(p: &RangeProof<FP>) -> usize {
        p.extension_degree() as usize
    }
}

/// The harness RNG handed to the prover: a healthy ChaCha stream or one of the fault models of C14.
#[derive(Clone, Debug)]
pub enum HRng {
    ChaCha(Box<ChaCha12Rng>),
    Zero,
    Const(u8),
    Period8([u8; 8], usize),
    Counter(u64),
    /// operating-system entropy; a prover handed this one is called through the convenience entry `RangeProof::prove`
    Os,
}

#[derive(Clone, Copy, Debug, PartialEq, Eq, Hash, serde::Serialize, serde::Deserialize)]
pub enum RngSpec {
    ChaCha(u64),
    Zero,
    Const(u8),
    Period8(u64),
    Counter(u64),
    /// `RangeProof::prove` (operating-system entropy): the entry most callers use. Not reproducible byte for byte, so it is only
    /// generated where the oracle does not depend on the proof bytes of an earlier run
    Os,
}

impl RngSpec {
    pub fn make(&self) -> HRng {
        match *self {
            RngSpec::ChaCha(s) => HRng::ChaCha(Box::new(ChaCha12Rng::seed_from_u64(s))),
            RngSpec::Zero => HRng::Zero,
            RngSpec::Const(b) => HRng::Const(b),
            RngSpec::Period8(p) => HRng::Period8(p.to_le_bytes(), 0),
            RngSpec::Counter(c) => HRng::Counter(c),
            RngSpec::Os => HRng::Os,
        }
    }

    pub fn class(&self) -> &'static str {
        match self {
            RngSpec::ChaCha(_) => "chacha",
            RngSpec::Zero => "zero",
            RngSpec::Const(_) => "const",
            RngSpec::Period8(_) => "period8",
            RngSpec::Counter(_) => "counter",
            RngSpec::Os => "os-entropy(RangeProof::prove)",
        }
    }

    pub fn is_faulty(&self) -> bool {
        !matches!(self, RngSpec::ChaCha(_) | RngSpec::Os)
    }
}

impl RngCore for HRng {
    fn next_u32(&mut self) -> u32 {
        let mut b = [0u8; 4];
        self.fill_bytes(&mut b);
        u32::from_le_bytes(b)
    }

    fn next_u64(&mut self) -> u64 {
        let mut b = [0u8; 8];
        self.fill_bytes(&mut b);
        u64::from_le_bytes(b)
    }

    fn fill_bytes(&mut self, dest: &mut [u8]) {
        match self {
            HRng::ChaCha(c) => c.fill_bytes(dest),
            HRng::Zero => dest.iter_mut().for_each(|b| *b = 0),
            HRng::Const(v) => dest.iter_mut().for_each(|b| *b = *v),
            HRng::Period8(p, pos) => {
                for b in dest.iter_mut() {
                    *b = p[*pos % 8];
                    *pos += 1;
                }
            },
            HRng::Counter(c) => {
                for chunk in dest.chunks_mut(8) {
                    let v = c.to_le_bytes();
                    chunk.copy_from_slice(&v[..chunk.len()]);
                    *c = c.wrapping_add(1);
                }
            },
            HRng::Os => rand_core::OsRng.fill_bytes(dest),
        }
    }

    fn try_fill_bytes(&mut self, dest: &mut [u8]) -> Result<(), rand_core::Error> {
        self.fill_bytes(dest);
        Ok(())
    }
}
impl CryptoRng for HRng {}

pub const ACTIONS: [VerifyAction; 3] = [VerifyAction::VerifyOnly, VerifyAction::RecoverAndVerify, VerifyAction::RecoverOnly];

pub fn action_name(a: VerifyAction) -> &'static str {
    match a {
        VerifyAction::VerifyOnly => "VerifyOnly",
        VerifyAction::RecoverAndVerify => "RecoverAndVerify",
        VerifyAction::RecoverOnly => "RecoverOnly",
    }
}
