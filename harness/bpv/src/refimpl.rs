//! Independent, deliberately unoptimised reference model of Bulletproofs+ with the Tari 0.4.0 wire conventions.
//! Written from the paper (Fig. 1 weighted inner product argument, Fig. 3 range proof) plus the extended-commitment,
//! minimum-value-promise and mask-recovery conventions of the released protocol. It shares no code with the crate
//! under test: own generator derivation, own transcript layout, own parser, explicit folding, no s-vector.
use blake2::Blake2bMac512;
use curve25519_dalek::{
    constants::RISTRETTO_BASEPOINT_POINT,
    ristretto::{CompressedRistretto, RistrettoPoint},
    scalar::Scalar,
    traits::Identity,
};
use digest::FixedOutput;
use merlin::Transcript;
use rand_core::RngCore;
use sha3::{
    digest::{Digest, ExtendableOutput, Update, XofReader},
    Sha3_512, Shake256,
};

use crate::fp::{g_id, FP, H_ID};

pub trait Grp: Clone + PartialEq + std::fmt::Debug + Send + Sync + 'static {
    fn zero() -> Self;
    fn add(&self, o: &Self) -> Self;
    fn mul(&self, s: &Scalar) -> Self;
    fn enc(&self) -> [u8; 32];
    fn dec(b: &[u8; 32]) -> Option<Self>;
    fn from_uniform(b: &[u8; 64]) -> Self;
    /// the reference's own idea of the Pedersen generators (h, g_0..g_{ext-1}) of this engine
    fn pedersen(ext: usize) -> (Self, Vec<Self>);
}
impl Grp for RistrettoPoint {
    fn zero() -> Self {
        <RistrettoPoint as Identity>::identity()
    }

    fn add(&self, o: &Self) -> Self {
        self + o
    }

    fn mul(&self, s: &Scalar) -> Self {
        self * s
    }

    fn enc(&self) -> [u8; 32] {
        self.compress().to_bytes()
    }

    fn dec(b: &[u8; 32]) -> Option<Self> {
        CompressedRistretto(*b).decompress()
    }

    fn from_uniform(b: &[u8; 64]) -> Self {
        RistrettoPoint::from_uniform_bytes(b)
    }

    fn pedersen(ext: usize) -> (Self, Vec<Self>) {
        let g = (1..=ext)
            .map(|i| {
                let mut h = Sha3_512::new();
                Digest::update(&mut h, format!("RISTRETTO_MASKING_BASEPOINT_{}", i).as_bytes());
                let d: [u8; 64] = h.finalize().into();
                RistrettoPoint::from_uniform_bytes(&d)
            })
            .collect();
        (RISTRETTO_BASEPOINT_POINT, g)
    }
}
impl Grp for FP {
    fn zero() -> Self {
        FP::default()
    }

    fn add(&self, o: &Self) -> Self {
        let mut r = self.clone();
        r.add_scaled(&Scalar::ONE, o);
        r
    }

    fn mul(&self, s: &Scalar) -> Self {
        self.scaled(s)
    }

    fn enc(&self) -> [u8; 32] {
        use tari_bulletproofs_plus::traits::Compressable;
        self.compress().0
    }

    fn dec(b: &[u8; 32]) -> Option<Self> {
        use tari_bulletproofs_plus::traits::Decompressable;
        crate::fp::CFP(*b).decompress()
    }

    fn from_uniform(b: &[u8; 64]) -> Self {
        let mut id = [0u8; 16];
        id.copy_from_slice(&b[..16]);
        FP::basis(u128::from_le_bytes(id))
    }

    fn pedersen(ext: usize) -> (Self, Vec<Self>) {
        (FP::basis(H_ID), (0..ext).map(|k| FP::basis(g_id(k))).collect())
    }
}

/// Vector generators of one party: SHAKE256("GeneratorsChain" || kind || LE32(party)), 64 fresh bytes per generator.
pub fn vec_gens<P: Grp>(kind: u8, party: u32, n: usize) -> Vec<P> {
    let mut sh = Shake256::default();
    sh.update(b"GeneratorsChain");
    sh.update(&[kind]);
    sh.update(&party.to_le_bytes());
    let mut rd = sh.finalize_xof();
    (0..n)
        .map(|_| {
            let mut b = [0u8; 64];
            rd.read(&mut b);
            P::from_uniform(&b)
        })
        .collect()
}

/// Seed-derived nonce: Blake2b-512 MAC, key = 0 || seed || ['j' LE32(j)] || ['k' LE32(k)], empty salt, persona = label,
/// reduced mod l from 64 bytes.
pub fn ref_nonce(seed: &Scalar, label: &str, j: Option<u32>, k: Option<u32>) -> Scalar {
    let mut key = vec![0u8];
    key.extend_from_slice(seed.as_bytes());
    if let Some(j) = j {
        key.push(b'j');
        key.extend_from_slice(&j.to_le_bytes());
    }
    if let Some(k) = k {
        key.push(b'k');
        key.extend_from_slice(&k.to_le_bytes());
    }
    let h = Blake2bMac512::new_with_salt_and_personal(&key, &[], label.as_bytes()).unwrap();
    let mut out = [0u8; 64];
    out.copy_from_slice(h.finalize_fixed().as_slice());
    Scalar::from_bytes_mod_order_wide(&out)
}

#[derive(Clone, Debug)]
pub struct Stmt<P> {
    pub bits: usize,
    pub h: P,
    pub g: Vec<P>,
    pub commitments: Vec<P>,
    pub promises: Vec<Option<u64>>,
}

impl<P: Grp> Stmt<P> {
    pub fn commit(h: &P, g: &[P], v: &Scalar, r: &[Scalar]) -> P {
        let mut c = h.mul(v);
        for (g, r) in g.iter().zip(r.iter()) {
            c = c.add(&g.mul(r));
        }
        c
    }
}

#[derive(Clone, Debug, PartialEq, Eq)]
pub struct Proof {
    pub ext: u8,
    pub d1: Vec<[u8; 32]>,
    pub a: [u8; 32],
    pub a1: [u8; 32],
    pub b: [u8; 32],
    pub r1: [u8; 32],
    pub s1: [u8; 32],
    pub l: Vec<[u8; 32]>,
    pub r: Vec<[u8; 32]>,
}

/// little-endian encoding of the group order l = 2^252 + 27742317777372353535851937790883648493
pub const ELL: [u8; 32] = [
    0xed, 0xd3, 0xf5, 0x5c, 0x1a, 0x63, 0x12, 0x58, 0xd6, 0x9c, 0xf7, 0xa2, 0xde, 0xf9, 0xde, 0x14, 0, 0, 0, 0, 0, 0, 0, 0, 0,
    0, 0, 0, 0, 0, 0, 0x10,
];

/// 256-bit comparison `x < l`, most significant byte first
pub fn is_canonical_scalar(x: &[u8; 32]) -> bool {
    for i in (0..32).rev() {
        if x[i] < ELL[i] {
            return true;
        }
        if x[i] > ELL[i] {
            return false;
        }
    }
    false
}

#[derive(Clone, Debug, PartialEq, Eq)]
pub enum ParseErr {
    Empty,
    Degree,
    Ragged,
    Count,
    NonCanonical,
}

impl Proof {
    /// Layout only: any number (>= 0) of L/R pairs, no canonicity requirement. Used by the reference verifier.
    pub fn parse_layout(bytes: &[u8]) -> Result<Proof, ParseErr> {
        let ext = *bytes.first().ok_or(ParseErr::Empty)?;
        if !(1..=6).contains(&ext) {
            return Err(ParseErr::Degree);
        }
        let body = &bytes[1..];
        if body.len() % 32 != 0 {
            return Err(ParseErr::Ragged);
        }
        let el: Vec<[u8; 32]> = body
            .chunks(32)
            .map(|c| {
                let mut a = [0u8; 32];
                a.copy_from_slice(c);
                a
            })
            .collect();
        let d = ext as usize;
        if el.len() < d + 5 || (el.len() - d - 5) % 2 != 0 {
            return Err(ParseErr::Count);
        }
        let rest = &el[d + 5..];
        Ok(Proof {
            ext,
            d1: el[..d].to_vec(),
            a: el[d],
            a1: el[d + 1],
            b: el[d + 2],
            r1: el[d + 3],
            s1: el[d + 4],
            l: rest.iter().step_by(2).copied().collect(),
            r: rest.iter().skip(1).step_by(2).copied().collect(),
        })
    }

    /// The documented acceptance set of the decoder: degree byte in 1..=6, then 5 + d + 2k elements with k >= 1,
    /// every scalar canonical.
    pub fn parse_strict(bytes: &[u8]) -> Result<Proof, ParseErr> {
        let p = Self::parse_layout(bytes)?;
        if p.l.is_empty() {
            return Err(ParseErr::Count);
        }
        if !p.d1.iter().chain([&p.r1, &p.s1]).all(is_canonical_scalar) {
            return Err(ParseErr::NonCanonical);
        }
        Ok(p)
    }

    pub fn encode(&self) -> Vec<u8> {
        let mut v = vec![self.ext];
        for d in &self.d1 {
            v.extend_from_slice(d);
        }
        for x in [&self.a, &self.a1, &self.b, &self.r1, &self.s1] {
            v.extend_from_slice(x);
        }
        for (l, r) in self.l.iter().zip(self.r.iter()) {
            v.extend_from_slice(l);
            v.extend_from_slice(r);
        }
        v
    }
}

fn chal(t: &mut Transcript, label: &'static [u8]) -> Option<Scalar> {
    let mut b = [0u8; 64];
    t.challenge_bytes(label, &mut b);
    let s = Scalar::from_bytes_mod_order_wide(&b);
    if s == Scalar::ZERO {
        None
    } else {
        Some(s)
    }
}
fn sc(b: &[u8; 32]) -> Option<Scalar> {
    if is_canonical_scalar(b) {
        Some(Scalar::from_bytes_mod_order(*b))
    } else {
        None
    }
}
fn powers(y: &Scalar, n: usize) -> Vec<Scalar> {
    let mut v = Vec::with_capacity(n);
    let mut p = Scalar::ONE;
    for _ in 0..n {
        v.push(p);
        p *= y;
    }
    v
}

/// Why the reference refuses an input before evaluating the relation
#[derive(Clone, Debug, PartialEq, Eq)]
pub enum Refusal {
    /// proof shape does not fit the statement (degree, round count, L/R count)
    Shape(&'static str),
    /// a promise does not fit in the bit length
    Promise,
    /// identity element among H, G_k, A, L, R, A1, B
    IdentityPoint(&'static str),
    /// a challenge was zero
    ZeroChallenge,
    /// a point does not decode
    Undecodable(&'static str),
    /// a scalar is not canonical
    NonCanonical,
}

#[derive(Clone, Debug)]
pub struct Challenges {
    pub y: Scalar,
    pub z: Scalar,
    pub es: Vec<Scalar>,
    pub e: Scalar,
}

/// Absorb statement and proof into `t` in the released layout and derive the challenges.
pub fn ref_challenges<P: Grp>(t: &mut Transcript, st: &Stmt<P>, pf: &Proof) -> Result<Challenges, Refusal> {
    ref_challenges_opts(t, st, pf, true)
}

/// `strict = false` absorbs identity elements instead of refusing them (used to evaluate the bare relation).
pub fn ref_challenges_opts<P: Grp>(t: &mut Transcript, st: &Stmt<P>, pf: &Proof, strict: bool) -> Result<Challenges, Refusal> {
    // with strict == false no encoding ever equals this sentinel comparison
    let zero32: [u8; 32] = [0u8; 32];
    macro_rules! is_id {
        ($e:expr) => {
            strict && $e == zero32
        };
    }
    let n = st.bits;
    let m = st.commitments.len();
    let ext = st.g.len();
    t.append_message(b"dom-sep", b"Bulletproofs+ Range Proof");
    if is_id!(st.h.enc()) {
        return Err(Refusal::IdentityPoint("H"));
    }
    t.append_message(b"H", &st.h.enc());
    for g in &st.g {
        if is_id!(g.enc()) {
            return Err(Refusal::IdentityPoint("G"));
        }
        t.append_message(b"G", &g.enc());
    }
    t.append_message(b"N", &(n as u64).to_le_bytes());
    t.append_message(b"T", &(ext as u64).to_le_bytes());
    t.append_message(b"M", &(m as u64).to_le_bytes());
    for c in &st.commitments {
        t.append_message(b"Ci", &c.enc());
    }
    for p in &st.promises {
        t.append_message(b"vi - minimum_value", &p.unwrap_or(0).to_le_bytes());
    }
    if is_id!(pf.a) {
        return Err(Refusal::IdentityPoint("A"));
    }
    t.append_message(b"A", &pf.a);
    let y = chal(t, b"y").ok_or(Refusal::ZeroChallenge)?;
    let z = chal(t, b"z").ok_or(Refusal::ZeroChallenge)?;
    let mut es = vec![];
    for (l, r) in pf.l.iter().zip(pf.r.iter()) {
        if is_id!(*l) {
            return Err(Refusal::IdentityPoint("L"));
        }
        if is_id!(*r) {
            return Err(Refusal::IdentityPoint("R"));
        }
        t.append_message(b"L", l);
        t.append_message(b"R", r);
        es.push(chal(t, b"e").ok_or(Refusal::ZeroChallenge)?);
    }
    if is_id!(pf.a1) {
        return Err(Refusal::IdentityPoint("A1"));
    }
    if is_id!(pf.b) {
        return Err(Refusal::IdentityPoint("B"));
    }
    t.append_message(b"A1", &pf.a1);
    t.append_message(b"B", &pf.b);
    let e = chal(t, b"e").ok_or(Refusal::ZeroChallenge)?;
    Ok(Challenges { y, z, es, e })
}

/// d_{j n + i} = z^{2(j+1)} 2^i
fn d_vector(z: &Scalar, n: usize, m: usize) -> Vec<Scalar> {
    let z2 = z * z;
    let mut d = vec![];
    let mut zj = Scalar::ONE;
    for _ in 0..m {
        zj *= z2;
        let mut two = Scalar::ONE;
        for _ in 0..n {
            d.push(zj * two);
            two += two;
        }
    }
    d
}

/// Outcome of the reference verifier: either a refusal, or the residual (RHS - LHS of the final equation);
/// the relation holds iff the residual is the group identity.
pub fn verify_residual<P: Grp>(t: &mut Transcript, st: &Stmt<P>, pf: &Proof) -> Result<P, Refusal> {
    verify_residual_opts(t, st, pf, true)
}

/// `strict = false`: evaluate the relation even when identity elements are present among the absorbed points.
pub fn verify_residual_opts<P: Grp>(t: &mut Transcript, st: &Stmt<P>, pf: &Proof, strict: bool) -> Result<P, Refusal> {
    let n = st.bits;
    let m = st.commitments.len();
    let nm = n * m;
    let ext = st.g.len();
    if pf.ext as usize != ext || pf.d1.len() != ext {
        return Err(Refusal::Shape("degree"));
    }
    if pf.l.len() != pf.r.len() {
        return Err(Refusal::Shape("lr"));
    }
    if pf.l.len() >= 32 || (1usize << pf.l.len()) != nm {
        return Err(Refusal::Shape("rounds"));
    }
    if st.promises.len() != m {
        return Err(Refusal::Shape("promises"));
    }
    for p in st.promises.iter().flatten() {
        if n < 64 && (p >> n) > 0 {
            return Err(Refusal::Promise);
        }
    }
    let Challenges { y, z, es, e } = ref_challenges_opts(t, st, pf, strict)?;
    let a = P::dec(&pf.a).ok_or(Refusal::Undecodable("A"))?;
    let a1 = P::dec(&pf.a1).ok_or(Refusal::Undecodable("A1"))?;
    let b = P::dec(&pf.b).ok_or(Refusal::Undecodable("B"))?;
    let ls: Vec<P> = pf
        .l
        .iter()
        .map(|x| P::dec(x).ok_or(Refusal::Undecodable("L")))
        .collect::<Result<_, _>>()?;
    let rs: Vec<P> = pf
        .r
        .iter()
        .map(|x| P::dec(x).ok_or(Refusal::Undecodable("R")))
        .collect::<Result<_, _>>()?;
    let r1 = sc(&pf.r1).ok_or(Refusal::NonCanonical)?;
    let s1 = sc(&pf.s1).ok_or(Refusal::NonCanonical)?;
    let d1: Vec<Scalar> = pf
        .d1
        .iter()
        .map(|x| sc(x).ok_or(Refusal::NonCanonical))
        .collect::<Result<_, _>>()?;
    // generators, party-major
    let mut gv: Vec<P> = vec![];
    let mut hv: Vec<P> = vec![];
    for j in 0..m {
        gv.extend(vec_gens::<P>(b'G', j as u32, n));
        hv.extend(vec_gens::<P>(b'H', j as u32, n));
    }
    let yp = powers(&y, nm + 2);
    let z2 = z * z;
    let d = d_vector(&z, n, m);
    // A_hat = A - z sum G_i + sum (z + d_i y^{nm-i}) H_i + zeta h + y^{nm+1} sum_j z^{2(j+1)} (V_j - p_j h)
    let mut p = a.clone();
    let mut sum_y = Scalar::ZERO;
    let mut sum_d = Scalar::ZERO;
    for i in 0..nm {
        p = p.add(&gv[i].mul(&(-z)));
        p = p.add(&hv[i].mul(&(z + d[i] * yp[nm - i])));
        sum_y += yp[i + 1];
        sum_d += d[i];
    }
    let ynm1 = yp[nm + 1];
    let zeta = (z - z2) * sum_y - z * ynm1 * sum_d;
    p = p.add(&st.h.mul(&zeta));
    let mut zj = Scalar::ONE;
    for j in 0..m {
        zj *= z2;
        let pj = Scalar::from(st.promises[j].unwrap_or(0));
        let shifted = st.commitments[j].add(&st.h.mul(&(-pj)));
        p = p.add(&shifted.mul(&(ynm1 * zj)));
    }
    // fold round by round
    let mut len = nm;
    for (k, ek) in es.iter().enumerate() {
        let half = len / 2;
        let ei = ek.invert();
        let yinv = yp[half].invert();
        let mut g2 = vec![];
        let mut h2 = vec![];
        for i in 0..half {
            g2.push(gv[i].mul(&ei).add(&gv[half + i].mul(&(ek * yinv))));
            h2.push(hv[i].mul(ek).add(&hv[half + i].mul(&ei)));
        }
        gv = g2;
        hv = h2;
        len = half;
        p = ls[k].mul(&(ek * ek)).add(&p).add(&rs[k].mul(&(ei * ei)));
    }
    assert_eq!(len, 1);
    let mut rhs = gv[0]
        .mul(&(r1 * e))
        .add(&hv[0].mul(&(s1 * e)))
        .add(&st.h.mul(&(r1 * y * s1)));
    for (g, d) in st.g.iter().zip(d1.iter()) {
        rhs = rhs.add(&g.mul(d));
    }
    let lhs = p.mul(&(e * e)).add(&a1.mul(&e)).add(&b);
    Ok(rhs.add(&lhs.mul(&(-Scalar::ONE))))
}

/// Convenience: does the reference accept?
pub fn ref_accepts<P: Grp>(t: &mut Transcript, st: &Stmt<P>, bytes: &[u8]) -> bool {
    match Proof::parse_layout(bytes) {
        Ok(pf) => matches!(verify_residual(t, st, &pf), Ok(r) if r == P::zero()),
        Err(_) => false,
    }
}

/// How the reference prover misbehaves (None = honest)
#[derive(Clone, Copy, Debug, PartialEq, Eq, serde::Serialize, serde::Deserialize, Hash)]
pub enum Cheat {
    Honest,
    /// pretend the offset value of slot `j` is 2^bits: a_L gets digit 2 in the top position (bit vector of 2^bits - 1 .. + 1)
    DigitTwo,
    /// a_R is not a_L - 1 in one position
    BadComplement,
    /// prove a different value than the committed one (value + 1 in the bit vector)
    OtherValue,
    /// offset value v - p computed as if the promise were p + 1 (proves v - p - 1, possibly -1 mod l as all-ones + carry)
    OffByOnePromise,
    /// use blinding r + 1 for component 0 inside the proof
    OtherBlinding,
}

pub struct RefWitness {
    pub values: Vec<u64>,
    pub blindings: Vec<Vec<Scalar>>,
}

/// Reference prover. Nonces: seed-derived (alpha, dL, dR, d, eta) when `seed` is given, otherwise drawn from `rng`;
/// the final masks r, s are always drawn from `rng`. With `cheat != Honest` it produces the best-effort proof of a
/// false statement (the inner-product argument is run honestly on whatever vectors it was given).
pub fn ref_prove<P: Grp, R: RngCore>(
    t: &mut Transcript,
    st: &Stmt<P>,
    w: &RefWitness,
    seed: Option<&Scalar>,
    rng: &mut R,
    cheat: Cheat,
    cheat_slot: usize,
) -> Proof {
    let n = st.bits;
    let m = st.commitments.len();
    let nm = n * m;
    let ext = st.g.len();
    let draw = |rng: &mut R| loop {
        let mut b = [0u8; 64];
        rng.fill_bytes(&mut b);
        let s = Scalar::from_bytes_mod_order_wide(&b);
        if s != Scalar::ZERO {
            break s;
        }
    };
    // bit vectors
    let mut a_l: Vec<Scalar> = vec![];
    let mut a_r: Vec<Scalar> = vec![];
    for j in 0..m {
        // (a promise vector shorter than the commitment vector - a hand-edited statement - counts as absent promises here)
        let mut off = w.values[j].wrapping_sub(st.promises.get(j).copied().flatten().unwrap_or(0));
        if j == cheat_slot % m {
            match cheat {
                Cheat::OtherValue => off = off.wrapping_add(1),
                Cheat::OffByOnePromise => off = off.wrapping_sub(1),
                _ => {},
            }
        }
        for i in 0..n {
            let bit = if i < 64 { (off >> i) & 1 } else { 0 };
            a_l.push(Scalar::from(bit));
            a_r.push(Scalar::from(bit) - Scalar::ONE);
        }
        if j == cheat_slot % m {
            match cheat {
                Cheat::DigitTwo => {
                    // digits that sum to 2^n with the weights 2^i: all ones, plus one more in position 0 => digit 2
                    for i in 0..n {
                        a_l[j * n + i] = Scalar::ONE;
                        a_r[j * n + i] = Scalar::ZERO;
                    }
                    a_l[j * n] = Scalar::from(2u8);
                    a_r[j * n] = Scalar::ONE;
                },
                Cheat::BadComplement => {
                    a_r[j * n + (n - 1)] += Scalar::ONE;
                },
                _ => {},
            }
        }
    }
    let mut alpha: Vec<Scalar> = (0..ext)
        .map(|k| match seed {
            Some(s) => ref_nonce(s, "alpha", None, Some(k as u32)),
            None => draw(rng),
        })
        .collect();
    let mut gv: Vec<P> = vec![];
    let mut hv: Vec<P> = vec![];
    for j in 0..m {
        gv.extend(vec_gens::<P>(b'G', j as u32, n));
        hv.extend(vec_gens::<P>(b'H', j as u32, n));
    }
    let mut a_pt = P::zero();
    for i in 0..nm {
        a_pt = a_pt.add(&gv[i].mul(&a_l[i])).add(&hv[i].mul(&a_r[i]));
    }
    for k in 0..ext {
        a_pt = a_pt.add(&st.g[k].mul(&alpha[k]));
    }
    let a_enc = a_pt.enc();
    // transcript
    t.append_message(b"dom-sep", b"Bulletproofs+ Range Proof");
    t.append_message(b"H", &st.h.enc());
    for g in &st.g {
        t.append_message(b"G", &g.enc());
    }
    t.append_message(b"N", &(n as u64).to_le_bytes());
    t.append_message(b"T", &(ext as u64).to_le_bytes());
    t.append_message(b"M", &(m as u64).to_le_bytes());
    for c in &st.commitments {
        t.append_message(b"Ci", &c.enc());
    }
    for p in &st.promises {
        t.append_message(b"vi - minimum_value", &p.unwrap_or(0).to_le_bytes());
    }
    t.append_message(b"A", &a_enc);
    let y = chal(t, b"y").expect("zero challenge");
    let z = chal(t, b"z").expect("zero challenge");
    let yp = powers(&y, nm + 2);
    let d = d_vector(&z, n, m);
    // shifted vectors
    let mut av: Vec<Scalar> = a_l.iter().map(|x| x - z).collect();
    let mut bv: Vec<Scalar> = (0..nm).map(|i| a_r[i] + d[i] * yp[nm - i] + z).collect();
    let z2 = z * z;
    let mut zj = Scalar::ONE;
    for j in 0..m {
        zj *= z2;
        for k in 0..ext {
            let mut r = w.blindings[j][k];
            if cheat == Cheat::OtherBlinding && j == cheat_slot % m && k == 0 {
                r += Scalar::ONE;
            }
            alpha[k] += yp[nm + 1] * zj * r;
        }
    }
    // weighted inner product argument
    let mut ls = vec![];
    let mut rs = vec![];
    let mut len = nm;
    let mut round = 0u32;
    while len > 1 {
        let half = len / 2;
        let (a1, a2) = av.split_at(half);
        let (b1, b2) = bv.split_at(half);
        let yh = yp[half];
        let yhi = yh.invert();
        let mut c_l = Scalar::ZERO;
        let mut c_r = Scalar::ZERO;
        for i in 0..half {
            c_l += a1[i] * yp[i + 1] * b2[i];
            c_r += a2[i] * yh * yp[i + 1] * b1[i];
        }
        let dl: Vec<Scalar> = (0..ext)
            .map(|k| match seed {
                Some(s) => ref_nonce(s, "dL", Some(round), Some(k as u32)),
                None => draw(rng),
            })
            .collect();
        let dr: Vec<Scalar> = (0..ext)
            .map(|k| match seed {
                Some(s) => ref_nonce(s, "dR", Some(round), Some(k as u32)),
                None => draw(rng),
            })
            .collect();
        let mut l_pt = st.h.mul(&c_l);
        let mut r_pt = st.h.mul(&c_r);
        for i in 0..half {
            l_pt = l_pt.add(&gv[half + i].mul(&(a1[i] * yhi))).add(&hv[i].mul(&b2[i]));
            r_pt = r_pt.add(&gv[i].mul(&(a2[i] * yh))).add(&hv[half + i].mul(&b1[i]));
        }
        for k in 0..ext {
            l_pt = l_pt.add(&st.g[k].mul(&dl[k]));
            r_pt = r_pt.add(&st.g[k].mul(&dr[k]));
        }
        let le = l_pt.enc();
        let re = r_pt.enc();
        t.append_message(b"L", &le);
        t.append_message(b"R", &re);
        let e = chal(t, b"e").expect("zero challenge");
        let ei = e.invert();
        let mut g2 = vec![];
        let mut h2 = vec![];
        let mut a_new = vec![];
        let mut b_new = vec![];
        for i in 0..half {
            g2.push(gv[i].mul(&ei).add(&gv[half + i].mul(&(e * yhi))));
            h2.push(hv[i].mul(&e).add(&hv[half + i].mul(&ei)));
            a_new.push(a1[i] * e + a2[i] * yh * ei);
            b_new.push(b1[i] * ei + b2[i] * e);
        }
        for k in 0..ext {
            alpha[k] += dl[k] * e * e + dr[k] * ei * ei;
        }
        gv = g2;
        hv = h2;
        av = a_new;
        bv = b_new;
        ls.push(le);
        rs.push(re);
        len = half;
        round += 1;
    }
    let r = draw(rng);
    let s = draw(rng);
    let dd: Vec<Scalar> = (0..ext)
        .map(|k| match seed {
            Some(sd) => ref_nonce(sd, "d", None, Some(k as u32)),
            None => draw(rng),
        })
        .collect();
    let eta: Vec<Scalar> = (0..ext)
        .map(|k| match seed {
            Some(sd) => ref_nonce(sd, "eta", None, Some(k as u32)),
            None => draw(rng),
        })
        .collect();
    let mut a1_pt = gv[0]
        .mul(&r)
        .add(&hv[0].mul(&s))
        .add(&st.h.mul(&(r * y * bv[0] + s * y * av[0])));
    let mut b_pt = st.h.mul(&(r * y * s));
    for k in 0..ext {
        a1_pt = a1_pt.add(&st.g[k].mul(&dd[k]));
        b_pt = b_pt.add(&st.g[k].mul(&eta[k]));
    }
    let a1e = a1_pt.enc();
    let be = b_pt.enc();
    t.append_message(b"A1", &a1e);
    t.append_message(b"B", &be);
    let e = chal(t, b"e").expect("zero challenge");
    let r1 = r + av[0] * e;
    let s1 = s + bv[0] * e;
    let d1: Vec<[u8; 32]> = (0..ext).map(|k| (eta[k] + dd[k] * e + alpha[k] * e * e).to_bytes()).collect();
    Proof {
        ext: ext as u8,
        d1,
        a: a_enc,
        a1: a1e,
        b: be,
        r1: r1.to_bytes(),
        s1: s1.to_bytes(),
        l: ls,
        r: rs,
    }
}

/// Reference mask recovery for a non-aggregated proof: solve d1_k for the commitment's k-th blinding.
pub fn ref_recover<P: Grp>(t: &mut Transcript, st: &Stmt<P>, pf: &Proof, seed: &Scalar) -> Result<Vec<Scalar>, Refusal> {
    let n = st.bits;
    let nm = n * st.commitments.len();
    let Challenges { y, z, es, e } = ref_challenges(t, st, pf)?;
    let yp = powers(&y, nm + 2);
    let mut out = vec![];
    for (k, d1) in pf.d1.iter().enumerate() {
        let d1 = sc(d1).ok_or(Refusal::NonCanonical)?;
        let k32 = k as u32;
        let e2i = (e * e).invert();
        let mut alpha_hat = (d1 - ref_nonce(seed, "eta", None, Some(k32)) - e * ref_nonce(seed, "d", None, Some(k32))) * e2i;
        alpha_hat -= ref_nonce(seed, "alpha", None, Some(k32));
        for (j, ej) in es.iter().enumerate() {
            let ej2 = ej * ej;
            alpha_hat -= ej2 * ref_nonce(seed, "dL", Some(j as u32), Some(k32));
            alpha_hat -= ej2.invert() * ref_nonce(seed, "dR", Some(j as u32), Some(k32));
        }
        out.push(alpha_hat * (z * z * yp[nm + 1]).invert());
    }
    Ok(out)
}
