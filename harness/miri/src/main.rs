use std::sync::{Arc, Barrier};

use curve25519_dalek::traits::Identity;
use curve25519_dalek::RistrettoPoint;
use tari_bulletproofs_plus::{generators::pedersen_gens::ExtensionDegree, ristretto::create_pedersen_gens_with_extension_degree};

fn main() {
    let degrees = [ExtensionDegree::AddFiveBasePoints, ExtensionDegree::DefaultPedersen, ExtensionDegree::AddTwoBasePoints];
    let barrier = Arc::new(Barrier::new(degrees.len()));
    let handles: Vec<_> = degrees
        .iter()
        .map(|d| {
            let d = *d;
            let b = barrier.clone();
            std::thread::spawn(move || {
                b.wait();
                // first use of the OnceCell-cached tables happens here, concurrently
                let g = create_pedersen_gens_with_extension_degree(d);
                (g.g_base_vec, g.g_base_compressed_vec)
            })
        })
        .collect();
    let results: Vec<_> = handles.into_iter().map(|h| h.join().expect("thread panicked")).collect();
    let longest = results.iter().max_by_key(|r| r.0.len()).unwrap();
    assert_eq!(longest.0.len(), 6);
    for (points, compressed) in &results {
        assert_eq!(points.len(), compressed.len());
        for (k, p) in points.iter().enumerate() {
            // every thread sees the same fully initialised generator k
            assert!(*p == longest.0[k], "generator {} differs between racing threads", k);
            assert!(compressed[k] == longest.1[k], "compressed generator {} differs between racing threads", k);
            assert!(*p != RistrettoPoint::identity(), "generator {} observed before initialisation", k);
        }
    }
    for i in 0..6 {
        for j in 0..i {
            assert!(longest.0[i] != longest.0[j], "generators {} and {} coincide", i, j);
        }
    }
    println!("ok");
}
