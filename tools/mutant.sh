#!/bin/bash
# tools/mutant.sh <patch.diff> <ID> [<ID>...]   -- apply a patch to /repo, run the quick checks, ALWAYS revert.
# Used only for sensitivity experiments; nothing is ever committed to /repo from here.
set -u
patch=$1; shift
if [ -n "$(git -C /repo status --porcelain --untracked-files=no)" ]; then echo "/repo not clean; refusing"; exit 2; fi
trap 'git -C /repo checkout -- . ; echo "[mutant] /repo reverted: $(git -C /repo status --porcelain --untracked-files=no | wc -l) dirty files"' EXIT
git -C /repo apply "$patch" || { echo "patch does not apply"; exit 2; }
export VERIF_EVIDENCE_DIR=/tmp/mutant_evidence
for id in "$@"; do
  out=$(VERIF_WATCHDOG_S=${VERIF_WATCHDOG_S:-900} /verif/check "$id" --tier ${TIER:-quick} 2>&1); code=$?
  echo "[mutant] $(basename "$patch") $id exit=$code $(echo "$out" | grep -m1 VIOLATION)"
  echo "$out" | grep -E 'reason=|INCONCLUSIVE|error' | head -${SHOW:-3}
done
