#!/bin/bash
# tools/lab.sh sync                     : (re)create a scratch laboratory /root/mutlab = copy of /verif's machinery wired to its
#                                         own scratch git worktree of /repo, so that sensitivity experiments never touch /repo
# tools/lab.sh run <patch.diff> <ID>... : apply patch in the lab's worktree, run the lab's quick checks, revert
set -u
LAB=${LAB:-/root/mutlab}
SRC=${LAB_SRC:-/verif}
case "${1:-}" in
sync)
  mkdir -p $LAB
  [ -d $LAB/repo ] || git -C /repo worktree add -q --detach $LAB/repo HEAD
  git -C $LAB/repo checkout -q --detach $(git -C /repo rev-parse HEAD) && git -C $LAB/repo checkout -q -- .
  rsync -a --delete --exclude target --exclude "fuzz/target" --exclude "miri/target" $SRC/harness/ $LAB/harness/
  rsync -a --delete $SRC/vectors/ $LAB/vectors/; rsync -a --delete $SRC/tools/ $LAB/tools/
  cp $SRC/check $SRC/KNOWN_FINDINGS.txt $SRC/MANIFEST.json $LAB/
  sed -i "s#path = \"/repo\"#path = \"$LAB/repo\"#" $LAB/harness/bpv/Cargo.toml $LAB/harness/miri/Cargo.toml
  echo "lab synced at $(git -C $LAB/repo rev-parse --short HEAD)"
  ;;
run)
  shift; patch=$1; shift
  git -C $LAB/repo checkout -q -- . ; git -C $LAB/repo apply "$patch" || { echo "[lab] $(basename $patch) patch does not apply"; exit 2; }
  export VERIF_REPO=$LAB/repo VERIF_EVIDENCE_DIR=$LAB/evidence
  for id in "$@"; do
    out=$(VERIF_WATCHDOG_S=${VERIF_WATCHDOG_S:-900} $LAB/check "$id" --tier ${TIER:-quick} 2>&1); code=$?
    echo "[lab] $(basename "$patch" .diff) $id exit=$code $(echo "$out" | grep -m1 VIOLATION | sed 's/replay=.*//')"
    echo "$out" | grep -E 'reason=|INCONCLUSIVE|^error' | head -${SHOW:-1}
  done
  git -C $LAB/repo checkout -q -- .
  ;;
*) echo "usage: lab.sh sync | run <patch> <ID>..."; exit 2;;
esac
