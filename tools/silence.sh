#!/bin/bash
# tools/silence.sh <seed>... : every registered quick check under each given VERIF_SEED on the unchanged tree; evidence goes to a
# scratch directory so that the committed evidence stays the VERIF_SEED=0 run. Prints one line per (seed, property); exit 1 if any
# check exits non-zero or prints VIOLATION.
ROOT=$(cd "$(dirname "$0")/.." && pwd)
ids=$(python3 -c "import json;print(' '.join(c['property_id'] for c in json.load(open('$ROOT/MANIFEST.json'))['checks']))")
scratch=$(mktemp -d); trap 'rm -rf $scratch' EXIT
rc=0
for seed in "$@"; do
  for id in $ids; do
    out=$(VERIF_SEED=$seed VERIF_EVIDENCE_DIR=$scratch "$ROOT/check" $id --tier quick 2>&1); c=$?
    v=$(echo "$out" | grep -c '^VIOLATION')
    echo "seed=$seed $id exit=$c violations=$v $(echo "$out" | grep -m1 -E 'reason=|INCONCLUSIVE' | cut -c1-160)"
    [ $c -ne 0 ] || [ $v -ne 0 ] && rc=1
  done
done
exit $rc
