#!/bin/bash
# tools/confirm_seed.sh <raw_dir> <k> : confirm a sub-agent's seeded change k in a scratch worktree:
#   (a) patch applies, (b) existing suite green with it, (c) demo fails with it, (d) demo passes without it.
set -u
raw=$1; k=$2
wt=/tmp/confirm_$$
export CARGO_TARGET_DIR=/tmp/confirm_target CARGO_NET_OFFLINE=true
git -C /repo worktree add -q --detach $wt HEAD || exit 2
trap 'git -C /repo worktree remove --force '$wt EXIT
cd $wt
cp $raw/demo_$k.rs tests/seeded_demo.rs
cargo test --offline --test seeded_demo >/tmp/confirm_$$.log 2>&1; d0=$?
git apply $raw/change_$k.diff || { echo "RESULT $raw $k: patch does not apply"; exit 1; }
cargo test --offline --test seeded_demo >>/tmp/confirm_$$.log 2>&1; d1=$?
rm tests/seeded_demo.rs
cargo test --workspace --no-fail-fast --offline >/tmp/confirm_$$.suite.log 2>&1; s=$?
passed=$(grep -E '^test result' /tmp/confirm_$$.suite.log | awk '{p+=$4; f+=$6} END {print p" passed "f" failed"}')
echo "RESULT $raw $k: demo_without_change_exit=$d0 demo_with_change_exit=$d1 suite_with_change_exit=$s ($passed)"
rm -f /tmp/confirm_$$.log /tmp/confirm_$$.suite.log
