#!/usr/bin/env python3
"""Validate MANIFEST.json and every evidence file against the schemas (run with python3-vt)."""
import json, glob, sys, jsonschema
ok = True
jsonschema.validate(json.load(open('/verif/MANIFEST.json')), json.load(open('/root/.vp/MANIFEST.schema.json')))
es = json.load(open('/root/.vp/EVIDENCE.schema.json'))
for f in sorted(glob.glob('/verif/evidence/*.json')):
    try:
        jsonschema.validate(json.load(open(f)), es)
    except Exception as e:
        ok = False; print("INVALID", f, str(e)[:300])
m = json.load(open('/verif/MANIFEST.json'))
ids = [c['property_id'] for c in m['checks']] + [c['property_id'] for c in m.get('not_applicable', [])]
assert sorted(ids) == ["C%02d" % i for i in range(1, 21)], ids
print("manifest ok;", len(m['checks']), "checks; evidence", "ok" if ok else "INVALID")
sys.exit(0 if ok else 1)
