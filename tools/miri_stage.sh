#!/bin/bash
# tools/miri_stage.sh <ID> <nseeds> : run the minimal first-use race (harness/miri) under miri with <nseeds> scheduler
# seeds starting at VERIF_SEED. miri reports data races and undefined behaviour as well as the program's own assertions.
set -u
id=$1; n=$2
ROOT=$(cd "$(dirname "$0")/.." && pwd)
cd "$ROOT/harness/miri" || exit 2
s0=$(( ${VERIF_SEED:-0} % 1000000 ))
log=$(mktemp "$ROOT/harness/target/miri.XXXXXX.log")
export CARGO_NET_OFFLINE=true MIRIFLAGS="-Zmiri-many-seeds=$s0..$((s0+n)) -Zmiri-disable-isolation"
if cargo +nightly miri run >"$log" 2>&1; then
  echo "[$id] miri: $n scheduler seeds ($s0..$((s0+n))) of the first-use race: no data race, no UB, results identical" >&2
  python3 - "$ROOT/evidence/$id.json" "$n" "$s0" <<'PY'
import json,sys
p=sys.argv[1]
try:
    e=json.load(open(p)); e['coverage']['miri']={"program":"harness/miri (3 threads race first use of the blinding-generator statics)","scheduler_seeds":int(sys.argv[2]),"first_seed":int(sys.argv[3])}
    e['coverage']['evaluations']+=int(sys.argv[2]); json.dump(e,open(p,'w'),indent=1)
except Exception as x: print("evidence update failed:",x,file=sys.stderr)
PY
  rm -f "$log"; exit 0
fi
if grep -qE "Undefined Behavior|Data race|data race|panicked at|assertion" "$log"; then
  mkdir -p "$ROOT/replays/$id"; dst="$ROOT/replays/$id/miri-$(date +%s).log"; cp "$log" "$dst"
  echo "VIOLATION property=$id replay=$dst"
  grep -E "Undefined Behavior|Data race|data race|panicked|seed" "$log" | head -5 >&2
  exit 1
fi
echo "INCONCLUSIVE: miri did not run to completion" >&2; tail -5 "$log" >&2; exit 2
