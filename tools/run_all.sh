#!/bin/bash
# tools/run_all.sh [quick|thorough] [IDs...] : run the registered checks one after the other, summarise exit codes
ROOT=$(cd "$(dirname "$0")/.." && pwd)
tier=${1:-quick}; shift || true
ids=${@:-$(python3 -c "import json;print(' '.join(c['property_id'] for c in json.load(open('$ROOT/MANIFEST.json'))['checks']))")}
rc=0
for id in $ids; do
  s=$(date +%s); out=$("$ROOT/check" $id --tier $tier 2>&1); c=$?; e=$(date +%s)
  echo "$id exit=$c $((e-s))s $(echo "$out" | grep -E 'VIOLATION|KNOWN-FINDING|INCONCLUSIVE' | head -3 | tr '\n' ' ')"
  [ $c -ne 0 ] && rc=1
done
exit $rc
