#!/usr/bin/env python3
"""Round 6 (one change per property): copy a confirmed sub-agent change from /root/seeds_raw/w6/<ID> into /verif/seeded/<ID>-11/.
usage: keep_round6.py <ID> '<RESULT line of confirm_seed.sh>' <first_pass_exit> <first_pass_violation:0|1>"""
import json, os, re, shutil, sys
pid, line = sys.argv[1], sys.argv[2]
m = re.search(r'demo_without_change_exit=(\d+) demo_with_change_exit=(\d+) suite_with_change_exit=(\d+) \((\d+) passed (\d+) failed\)', line)
if not m: sys.exit('no RESULT line')
c = dict(zip(['demo_without_change_exit', 'demo_with_change_exit', 'suite_with_change_exit', 'suite_passed', 'suite_failed'], map(int, m.groups())))
if not (c['demo_without_change_exit'] == 0 and c['demo_with_change_exit'] != 0 and c['suite_with_change_exit'] == 0 and c['suite_failed'] == 0):
    sys.exit(f'NOT CONFIRMED {pid} {c}')
props = {json.loads(l)['id']: json.loads(l) for l in open('/verif/properties.jsonl')}
src, dst = f'/root/seeds_raw/w6/{pid}', f'/verif/seeded/{pid}-11'
os.makedirs(dst, exist_ok=True)
for a, b in (('change_1.diff', 'patch.diff'), ('demo_1.rs', 'demo.rs'), ('notes_1.md', 'notes.md')):
    shutil.copy(f'{src}/{a}', f'{dst}/{b}')
meta = {
    'seed_id': f'{pid}-11', 'breaks_property': pid, 'property_title': props[pid]['title'], 'round': 6,
    'origin': 'written by an independent sub-agent that was given only the property text and a scratch git worktree of /repo (nothing from /verif)',
    'base_commit': '2ff1c82 (pinned 6415632 + the three fix: commits)',
    'needs_to_manifest': "see notes.md (the sub-agent's own description of what the change needs in order to show)",
    'confirmed_by_me': {'how': 'tools/confirm_seed.sh: fresh scratch worktree of /repo under /tmp (removed afterwards): demo alone on the unchanged tree; git apply patch.diff; demo again; demo removed; full existing suite (cargo test --workspace --no-fail-fast --offline)', **c},
    'files': {'patch.diff': 'git diff of src/ only', 'demo.rs': 'integration test (tests/seeded_demo.rs) that fails with the change and passes without', 'notes.md': "the sub-agent's notes"},
    'detected_by': {},
}
if len(sys.argv) > 4:
    meta['first_pass'] = {'harness': '/verif commit d360b85 harness (unchanged since before the sixth round was briefed), on /repo', 'own_check_quick_exit': int(sys.argv[3]), 'detected': sys.argv[4] == '1'}
json.dump(meta, open(f'{dst}/meta.json', 'w'), indent=1)
print('kept', dst)
