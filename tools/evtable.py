#!/usr/bin/env python3
"""Print the measured quick-tier table of DESIGN.md section 10 from the evidence files (and replace it in DESIGN.md with --write)."""
import json, os, re, sys
ROOT = os.path.dirname(os.path.dirname(os.path.abspath(__file__)))
rows = ["| id | evaluations | distinct non-trivial | wall s | sub-checks (evaluations) |", "|----|-------------|----------------------|--------|---------------------------|"]
for i in range(1, 21):
    pid = "C%02d" % i
    e = json.load(open(f"{ROOT}/evidence/{pid}.json"))
    c = e["coverage"]
    subs = "; ".join(f"{s['sub']} {s['evaluations']}" for s in c["per_sub_check"])
    rows.append(f"| {pid} | {c['evaluations']} | {c['distinct_nontrivial']} | {round(e['wall_s'])} | {subs} |")
table = "\n".join(rows)
if "--write" in sys.argv:
    p = f"{ROOT}/DESIGN.md"
    s = open(p).read()
    s2 = re.sub(r"\| id \| evaluations \| distinct non-trivial \| wall s \| sub-checks \(evaluations\) \|\n(\|.*\n)+", table + "\n", s, count=1)
    assert s2 != s or table in s
    open(p, "w").write(s2)
else:
    print(table)
