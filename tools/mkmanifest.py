#!/usr/bin/env python3
"""Regenerates /verif/MANIFEST.json from the table below (kept in one place so it stays valid and consistent)."""
import json, os
ROOT = os.path.dirname(os.path.dirname(os.path.abspath(__file__)))
ALL = ["C%02d" % i for i in range(1, 21)]
# id -> (level category, technique, level text, level note, design ref)
CHECKS = {
 "C01": ("exploration", "property-based testing (proptest, stratified lattice + random) with differential oracle (independent reference verifier) on two engines",
         "Generated-input search: every lattice point of (bits, aggregation, capacity) plus random cases with value/promise/blinding/RNG/seed/context classes; prove must succeed, verify must succeed in three modes, an independently written verifier must accept the bytes. Exploration, not proof: absence of a counter-example in a measured stratified sample.",
         "Trusts the reference implementation in harness/bpv/src/refimpl.rs (validated against recorded 0.4.0 vectors in C19) and that engine F (free module) exercises the same generic library code as Ristretto.",
         "DESIGN.md section 3, C01"),
}
NOT_YET = "check not built yet in this revision of /verif (planned in DESIGN.md section 3)"
m = {
 "version": 1,
 "setup_cmd": "cd /verif/harness && CARGO_NET_OFFLINE=true cargo build --release --offline",
 "hooks": {
   "guard": "tari_bulletproofs_plus_verif",
   "enable": "no source hooks are needed: every observation point is reached from outside the crate (harness-owned point type, patched merlin dependency, harness global allocator); the guard name is reserved and unused",
   "baseline_off_cmd": "cd /repo && CARGO_NET_OFFLINE=true cargo test --workspace --no-fail-fast --offline",
   "source_commits": [],
   "add_only": True,
 },
 "engines": [
   {"name": "bpcheck", "path": "harness/bpv", "serves_properties": sorted(CHECKS), "kind_free_text": "Rust binary: sharded seeded proptest runners + independent reference model + free-module engine; ./check <ID> rebuilds it against /repo"},
 ],
 "checks": [],
 "not_applicable": [],
 "notes": "All checks: ./check <ID> [--tier quick|thorough]; VERIF_SEED selects the PRNG stream; replay with ./check <ID> --replay <file>. Genuine defects repaired in /repo are listed in KNOWN_FINDINGS.txt (fixed:), unrepaired ones as open: entries.",
}
for pid in ALL:
    if pid in CHECKS:
        cat, tech, text, note, ref = CHECKS[pid]
        m["checks"].append({
            "property_id": pid,
            "quick_cmd": f"./check {pid} --tier quick",
            "thorough_cmd": f"./check {pid} --tier thorough",
            "evidence_file": f"/verif/evidence/{pid}.json",
            "replay_cmd_template": f"./check {pid} --replay {{path}}",
            "engine": "bpcheck",
            "level_claimed": {"category": cat, "text": text, "design_ref": ref},
            "level_note": note,
            "technique": tech,
        })
    else:
        m["not_applicable"].append({"property_id": pid, "reason": NOT_YET})
json.dump(m, open(os.path.join(ROOT, "MANIFEST.json"), "w"), indent=1)
print("wrote MANIFEST.json with", len(m["checks"]), "checks")
