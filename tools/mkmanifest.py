#!/usr/bin/env python3
"""Regenerates /verif/MANIFEST.json from the table below (kept in one place so it stays valid and consistent)."""
import json, os
ROOT = os.path.dirname(os.path.dirname(os.path.abspath(__file__)))
ALL = ["C%02d" % i for i in range(1, 21)]
# id -> (level category, technique, level text, level note, design ref)
CHECKS = {
 "C01": ("exploration", "property-based testing (proptest, stratified lattice + random) with differential oracle (independent reference verifier) on two engines",
         "Generated-input search: every lattice point of (bits, aggregation, capacity) plus random cases with value/promise/blinding/RNG/seed/context classes; prove must succeed, verify must succeed in three modes, an independently written verifier must accept the bytes. Exploration, not proof: absence of a counter-example in a measured stratified sample.",
         "Trusts the reference implementation in harness/bpv/src/refimpl.rs (validated against recorded 0.4.0 vectors in C19) and that engine F (free module) exercises the same generic library code as Ristretto.",
         "DESIGN.md section 3, C01"),
 "C02": ("exploration", "property-based testing with a differential oracle: coordinate-wise comparison of the verifier's final equation with an independent reference relation over a free-module engine (garbage proofs), plus verdict comparison on mutated / cheating-prover proofs",
         "Generated-input search for any deviation of the verifier's relation from the published protocol: over the free module every coefficient of the final multiscalar equation is read off and must equal weight x the reference residual on every coordinate for random garbage proofs (all terms active at once); verdicts on mutated honest proofs and on reference-prover proofs of false statements must agree with the reference in both directions, in VerifyOnly and RecoverAndVerify, and cancelling defect pairs in a batch must be refused.",
         "Trusts refimpl.rs as the specification of the relation; algebraic comparison is on engine F (same generic library code, harness-defined group), Ristretto contributes verdict comparisons; zero-round proofs cannot be built from bytes (known finding C15) and are excluded and counted.",
         "DESIGN.md section 3, C02"),
 "C03": ("exploration", "property-based testing over generated batch histories (pool + index sequence + positions + permutation) with singleton verification and the reference verifier as oracle",
         "Generated batches of size 1..1100 (boundaries 255/256/257/511/512/513 stratified), invalid members at generated positions, mixed aggregation/capacity, all modes, permutations; malformed batches; cancelling defect pairs. Batch verdict must equal AND of singleton verdicts, results must be k long and aligned.",
         "Singleton verification by the library (cross-checked against the reference verifier) decides member validity; long batches use members of at most 8 bits.",
         "DESIGN.md section 3, C03"),
 "C05": ("exploration", "property-based testing with exhaustive per-case enumeration of component positions x replacement values (metamorphic: one alteration => error)",
         "For each generated accepted triple every proof scalar, proof point, round count, degree tag, commitment, commitment order, promise, bit length, Pedersen generator and transcript context is altered in turn (2-6 replacement values each) and verified alone in VerifyOnly and RecoverAndVerify and as the last, larger member of a batch; every outcome must be an error value; None<->Some(0) is the accepted control.",
         "Rejections rest on exact algebra over F and on a changed transcript; over Ristretto an accidental acceptance has probability ~2^-252. Alterations of proof elements are impossible for bits*m == 1 (known finding C15), counted as excluded.",
         "DESIGN.md section 3, C05"),
 "C06": ("exploration", "property-based testing: prover result compared with an independently written witness-validity predicate; single-violation generator",
         "Valid (statement, witness) pairs with at most one violation at a generated position (count, degree incl. short openings that still reproduce the commitment, value, blinding, swapped openings, value >= 2^bits with or without compensating promise, promise above value). prove is Ok iff predicate; Ok implies the proof verifies and the reference accepts.",
         "Predicate uses the reference's own commitment and 128-bit range arithmetic.",
         "DESIGN.md section 3, C06"),
 "C07": ("exploration", "property-based testing: metamorphic promise substitution at verification, prover boundary per aggregate position, residual h-coordinate comparison over the free module",
         "Proofs made under promise vector p verify exactly under value-wise equal vectors; out-of-range promises are refused; promise == value proves, value + 1 is refused at every position with the others valid; over F the promise-dependent h-coefficient of the verifier's equation equals the reference's.",
         "Transcript binding of promises is decided by C04; algebra by the reference relation.",
         "DESIGN.md section 3, C07"),
 "C09": ("exploration", "property-based testing over generated batch compositions with the commitment's blinding vector and an independent reference recovery as oracle",
         "Batches of 1-12 members mixing seeded, unseeded and aggregated members with per-component-distinct blindings, all bit lengths, degrees 1-6, capacities m..4m, in all three modes; result i must equal the blinding vector of commitment i or None as specified.",
         "Reference recovery (refimpl.rs) uses its own Blake2b nonce derivation.",
         "DESIGN.md section 3, C09"),
 "C10": ("exploration", "property-based testing: verdict invariance over {no seed, right seed, wrong seed} x modes, wrong seed derived by single-bit flips at generated positions, in batches",
         "For valid and mutated non-aggregated proofs, alone or between neighbouring members: identical accept/reject verdict in VerifyOnly and RecoverAndVerify whatever seed the statement carries; right seed gives the mask, any different seed (incl. a one-bit difference at each of 252 positions) gives Ok with a different vector; RecoverOnly equals RecoverAndVerify whenever the latter accepts.",
         "RecoverOnly's Ok on invalid proofs is by design and not compared.",
         "DESIGN.md section 3, C10"),
 "C12": ("exploration", "property-based testing: metamorphic capacity change (prove under c_p, verify under c_v, alone and in mixed-capacity batches) plus generator comparison with a capacity-independent reference derivation",
         "Aggregates of 1-8 commitments proved under capacity m*2^a and verified under m*2^b, alone and inside batches with other capacities, all modes; every vector generator under each capacity equals the reference derivation for (party, index).",
         "Size bound bits*capacity <= 1024 (quick F).",
         "DESIGN.md section 3, C12"),
 "C04": ("exploration", "property-based testing with a metamorphic oracle observed at the merlin boundary (instrumented dependency): one absorbed datum perturbed => every later challenge differs",
         "For generated triples at batch positions 0-2, each absorbed datum (context, H, every G_k, bit length, aggregation factor, extension degree, every commitment, every promise, A, every L_j and R_j, A1, B) is perturbed alone and the challenge sequence of verifier (and, for context / promises, prover) is compared with the base run: all challenges after the datum must differ, None<->Some(0) must change nothing, prover and verifier must agree.",
         "Challenges are identified by order of challenge_bytes calls per member; vendor/merlin-tap = merlin 3.0.0 + logging calls (C19 pins that it still computes merlin).",
         "DESIGN.md section 3, C04"),
 "C08": ("exploration", "stateful property-based testing: adaptive attack histories against batch weights read off the verifier's final equation over a free-module engine",
         "Histories over batches of 2-6 proofs: read every proof's factor through markers, bump a response scalar and demand that factor ratios move, compute equal-and-opposite offsets from factors observed on the previous run and demand rejection; plus naive cancellation on Ristretto.",
         "Factors are observable only over engine F; ratio coincidence has probability 2^-252.",
         "DESIGN.md section 3, C08"),
 "C13": ("exploration", "property-based testing with nonce read-out: proof points over a free-module engine expose every blinding nonce as a coordinate; differential against an independent Blake2b derivation",
         "Each generated statement is proved twice with different RNG streams; all nonces (alpha, dL, dR, d, eta per degree index and round, r, s) are extracted exactly and must be nonzero, pairwise distinct, disjoint between runs (no seed) or equal to the reference seed derivation with fresh r, s (seed).",
         "Read-out relies on the proof layout (self-checked: r*y*s == coef(B,h)); a failed self-check is exit 2.",
         "DESIGN.md section 3, C13"),
 "C14": ("fault_enumeration", "fault injection into the prover's external RNG (enumerated fault models) x generated single-field differences, with nonce read-out over the free module",
         "Enumerates RNG fault models {all-zero, constant, period-8, counter, replayed stream} against pairs of runs differing in exactly one of context / promise / commitment / witness value with same commitment / witness blinding split with same commitment / nothing, at generated aggregate positions, with and without seed; identical runs must be byte-identical, otherwise no RNG-derived nonce may be shared.",
         "Same-commitment witness pairs need degenerate Pedersen generators built as struct literals, which the library accepts; Ristretto cross-check compares proof elements byte-wise.",
         "DESIGN.md section 3, C14"),
}
NOT_YET = "check not built yet in this revision of /verif (planned in DESIGN.md section 3)"
m = {
 "version": 1,
 "setup_cmd": "cd /verif/harness && CARGO_NET_OFFLINE=true cargo build --release --offline && CARGO_NET_OFFLINE=true cargo build --profile scan --offline",
 "hooks": {
   "guard": "tari_bulletproofs_plus_verif",
   "enable": "no source hooks are needed: every observation point is reached from outside the crate (harness-owned point type, patched merlin dependency, harness global allocator); the guard name is reserved and unused",
   "baseline_off_cmd": "cd /repo && CARGO_NET_OFFLINE=true cargo test --workspace --no-fail-fast --offline",
   "source_commits": [],
   "add_only": True,
 },
 "engines": [
   {"name": "bpcheck", "path": "harness/bpv", "serves_properties": sorted(CHECKS), "kind_free_text": "Rust binary: sharded seeded proptest runners + independent reference model + free-module engine; ./check <ID> rebuilds it against /repo"},
 ],
 "checks": [],
 "not_applicable": [],
 "notes": "All checks: ./check <ID> [--tier quick|thorough]; VERIF_SEED selects the PRNG stream; replay with ./check <ID> --replay <file>. Genuine defects repaired in /repo are listed in KNOWN_FINDINGS.txt (fixed:), unrepaired ones as open: entries.",
}
for pid in ALL:
    if pid in CHECKS:
        cat, tech, text, note, ref = CHECKS[pid]
        m["checks"].append({
            "property_id": pid,
            "quick_cmd": f"./check {pid} --tier quick",
            "thorough_cmd": f"./check {pid} --tier thorough",
            "evidence_file": f"/verif/evidence/{pid}.json",
            "replay_cmd_template": f"./check {pid} --replay {{path}}",
            "engine": "bpcheck",
            "level_claimed": {"category": cat, "text": text, "design_ref": ref},
            "level_note": note,
            "technique": tech,
        })
    else:
        m["not_applicable"].append({"property_id": pid, "reason": NOT_YET})
json.dump(m, open(os.path.join(ROOT, "MANIFEST.json"), "w"), indent=1)
print("wrote MANIFEST.json with", len(m["checks"]), "checks")
