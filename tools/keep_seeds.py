#!/usr/bin/env python3
"""Copy confirmed sub-agent seeded changes from /root/seeds_raw into /verif/seeded/<ID>-<k>/ with meta.json."""
import json, os, re, shutil, glob
RAW = '/root/seeds_raw'
confirm = {}
for f in glob.glob(RAW + '/confirm_*.log') + glob.glob(RAW + '/w2/confirm*.log') + glob.glob(RAW + '/w3/confirm*.log') + glob.glob(RAW + '/w4/confirm*.log') + glob.glob(RAW + '/w5/confirm*.log'):
    for line in open(f):
        m = re.match(r'RESULT /root/seeds_raw/(?:w[2345]/)?(C\d+) (\d): demo_without_change_exit=(\d+) demo_with_change_exit=(\d+) suite_with_change_exit=(\d+) \((\d+) passed (\d+) failed\)', line)
        if m:
            confirm[(m.group(1), int(m.group(2)) + (2 if '/w2/' in line else 4 if '/w3/' in line else 6 if '/w4/' in line else 8 if '/w5/' in line else 0))] = dict(demo_without_change_exit=int(m.group(3)), demo_with_change_exit=int(m.group(4)),
                                                         suite_with_change_exit=int(m.group(5)), suite_passed=int(m.group(6)), suite_failed=int(m.group(7)))
props = {json.loads(l)['id']: json.loads(l) for l in open('/verif/properties.jsonl')}
n = 0
for pid in sorted(props):
    for k in (1, 2, 3, 4, 5, 6, 7, 8, 9, 10):
        src = f'{RAW}/{pid}' if k <= 2 else (f'{RAW}/w2/{pid}' if k <= 4 else (f'{RAW}/w3/{pid}' if k <= 6 else (f'{RAW}/w4/{pid}' if k <= 8 else f'{RAW}/w5/{pid}')))
        kk = (k - 1) % 2 + 1
        if not os.path.exists(f'{src}/change_{kk}.diff'):
            continue
        c = confirm.get((pid, k))
        ok = c and c['demo_without_change_exit'] == 0 and c['demo_with_change_exit'] != 0 and c['suite_with_change_exit'] == 0 and c['suite_failed'] == 0
        if not ok:
            print('NOT CONFIRMED', pid, k, c); continue
        dst = f'/verif/seeded/{pid}-{k}'
        os.makedirs(dst, exist_ok=True)
        shutil.copy(f'{src}/change_{kk}.diff', f'{dst}/patch.diff')
        shutil.copy(f'{src}/demo_{kk}.rs', f'{dst}/demo.rs')
        shutil.copy(f'{src}/notes_{kk}.md', f'{dst}/notes.md')
        meta_path = f'{dst}/meta.json'
        old = json.load(open(meta_path)) if os.path.exists(meta_path) else {}
        meta = {
            'seed_id': f'{pid}-{k}',
            'breaks_property': pid,
            'property_title': props[pid]['title'],
            'round': (k + 1) // 2,
            'origin': 'written by an independent sub-agent that was given only the property text and a scratch git worktree of /repo (nothing from /verif)',
            'base_commit': 'aa96047 (pinned 6415632 + the first two fix: commits); the patch also applies to 2ff1c82 (third fix: commit)',
            'needs_to_manifest': 'see notes.md (the sub-agent\'s own description of what the change needs in order to show)',
            'confirmed_by_me': {
                'how': 'tools/confirm_seed.sh: fresh scratch worktree of /repo under /tmp (removed afterwards): demo alone on the unchanged tree; git apply patch.diff; demo again; demo removed; full existing suite (cargo test --workspace --no-fail-fast --offline)',
                **c,
            },
            'files': {'patch.diff': 'git diff of src/ only', 'demo.rs': 'integration test (tests/seeded_demo.rs) that fails with the change and passes without', 'notes.md': 'the sub-agent\'s notes'},
            'detected_by': old.get('detected_by', {}),
        }
        json.dump(meta, open(meta_path, 'w'), indent=1)
        n += 1
print('kept', n, 'seeded changes')
