#!/bin/bash
# tools/fuzz_stage.sh <ID> <target> <runs> : coverage-guided stage of a thorough check.
# Runs the libFuzzer target for a fixed number of executions from a fresh copy of the committed seed corpus, with
# -seed derived from VERIF_SEED. A crash is confirmed on the optimised release harness (bpcheck fuzz-replay) before it
# is reported; a timeout / rss-limit hit is exit 2 (inconclusive), never a violation.
set -u
id=$1; target=$2; runs=$3
ROOT=$(cd "$(dirname "$0")/.." && pwd)
cd "$ROOT/harness/fuzz" || exit 2
[ -f Cargo.lock ] || cp ../Cargo.lock Cargo.lock
work=$(mktemp -d "$ROOT/harness/target/fuzzwork.XXXXXX")
trap 'rm -rf "$work"' EXIT
mkdir -p "$work/corpus" "$work/art"
cp "$ROOT"/vectors/corpus/$target/* "$work/corpus/" 2>/dev/null
seed=$(( (${VERIF_SEED:-0} % 2147483646) + 1 ))
export CARGO_NET_OFFLINE=true
if ! cargo +nightly fuzz build $target >"$work/build.log" 2>&1; then
  echo "INCONCLUSIVE: cargo fuzz build $target failed" >&2; tail -5 "$work/build.log" >&2; exit 2
fi
jobs=${FUZZ_JOBS:-8}
# C16 judges panic-freedom only: oracle failures of the target that are not panics (verdict vs reference, batch vs
# singletons) belong to C02 / C03 / C15; for C16 the campaign keeps going past them and only panics are confirmed
po=""; ign=0
[ "$id" = "C16" ] && { po="panic-only"; ign=1; }
cargo +nightly fuzz run $target "$work/corpus" -- -runs=$runs -seed=$seed -len_control=0 -max_len=4096 -timeout=25 \
   -rss_limit_mb=4096 -artifact_prefix="$work/art/" -print_final_stats=1 -fork=$jobs -ignore_crashes=$ign >"$work/run.log" 2>&1
code=$?
execs=$(grep -Eo 'fuzzed for [0-9]+ iterations' "$work/run.log" | tail -1 | awk '{print $3}')
[ -z "$execs" ] && execs=$(grep -Eo '^#[0-9]+' "$work/run.log" | tail -1 | tr -d '#')
[ -z "$execs" ] && execs=$(grep -Eo 'stat::number_of_executed_units: [0-9]+' "$work/run.log" | awk '{s+=$2} END {print s+0}')
cov=$(grep -Eo 'cov: [0-9]+' "$work/run.log" | tail -1 | awk '{print $2}')
corp=$(ls "$work/corpus" | wc -l)
echo "[$id] libFuzzer $target: executions=${execs:-?} coverage_edges=${cov:-?} corpus=$corp exit=$code seed=$seed" >&2
confirmed=0
for a in "$work"/art/crash-* "$work"/art/oom-* "$work"/art/timeout-*; do
  [ -f "$a" ] || continue
  case "$a" in *crash-*) ;; *) continue ;; esac
  if ! BPCHECK_CHILD=1 "$ROOT/harness/target/release/bpcheck" fuzz-replay $target "$a" $po >/dev/null 2>&1; then
    mkdir -p "$ROOT/replays/$id"
    dst="$ROOT/replays/$id/fuzz-$target-$(sha1sum "$a" | cut -c1-12).json"
    python3 - "$a" "$dst" "$id" "$target" <<'PY'
import json,sys
b=list(open(sys.argv[1],'rb').read())
json.dump({"property":sys.argv[3],"sub":"R/corpus-replay(%s)"%sys.argv[4],"reason":"libFuzzer artifact; oracle of target fails","case":{"panic_only":sys.argv[3]=="C16","target":sys.argv[4],"name":"libfuzzer-artifact","bytes":b}},open(sys.argv[2],'w'))
PY
    echo "VIOLATION property=$id replay=$dst"
    confirmed=1
  fi
done
python3 - "$ROOT/evidence/$id.json" "$target" "${execs:-0}" "${cov:-0}" "$corp" "$seed" <<'PY'
import json,sys
p=sys.argv[1]
try:
    e=json.load(open(p))
    e['coverage'].setdefault('libfuzzer',[]).append({"target":sys.argv[2],"executions":int(sys.argv[3]),"coverage_edges":int(sys.argv[4]),"final_corpus":int(sys.argv[5]),"seed":int(sys.argv[6])})
    e['coverage']['evaluations']+=int(sys.argv[3])
    json.dump(e,open(p,'w'),indent=1)
except Exception as x:
    print("evidence update failed:",x,file=sys.stderr)
PY
[ $confirmed -eq 1 ] && exit 1
if [ $code -ne 0 ] && [ $ign -eq 0 ]; then echo "INCONCLUSIVE: libFuzzer exited with $code without a confirmed oracle failure (timeout / rss limit?)" >&2; tail -5 "$work/run.log" >&2; exit 2; fi
exit 0
