#!/bin/bash
# tools/seed_matrix.sh [own|all] [seed ids...] : apply each kept seeded change to /repo, run checks (quick tier), revert,
# and record which checks report a VIOLATION in seeded/<id>/meta.json ("detected_by").
mode=${1:-own}; shift || true
seeds=${@:-$(ls /verif/seeded)}
allids=$(python3 -c "import json;print(' '.join(c['property_id'] for c in json.load(open('/verif/MANIFEST.json'))['checks']))")
for s in $seeds; do
  d=/verif/seeded/$s; pid=${s%-*}
  ids=$pid; [ "$mode" = all ] && ids=$allids
  out=$(/verif/tools/mutant.sh $d/patch.diff $ids 2>&1)
  echo "$out" | grep '^\[mutant\]' | grep -v reverted
  python3 - "$d/meta.json" <<PY
import json,sys,re
m=json.load(open(sys.argv[1]))
det=m.get('detected_by',{})
for line in '''$out'''.splitlines():
    r=re.match(r'\[mutant\] \S+ (C\d+) exit=(\d+)(.*)',line)
    if r: det[r.group(1)]={'quick_exit':int(r.group(2)),'violation_reported':'VIOLATION' in r.group(3)}
m['detected_by']=dict(sorted(det.items()))
json.dump(m,open(sys.argv[1],'w'),indent=1)
PY
done
[ -z "$(git -C /repo status --porcelain --untracked-files=no)" ] && echo "/repo clean"
